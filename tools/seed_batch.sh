#!/bin/bash
# usage: tools/seed_batch.sh <round> <P:n:name> ...   evaluates /tmp/seed/<P>-out/<n> as seeded/<P>-<name> against check <P> (3 at a time)
ROUND="$1"; shift
for spec in "$@"; do
  IFS=: read P N NAME <<<"$spec"
  ( /verif/tools/seed_add.sh /tmp/seed/$P-out/$N $P-$NAME $P $ROUND "" $P > /tmp/seed/$P-$N.eval 2>&1; echo "done $spec: $(tr '\n' ' ' < /tmp/seed/$P-$N.eval | cut -c1-400)" ) &
  while [ $(jobs -r | wc -l) -ge 3 ]; do sleep 2; done
done
wait
