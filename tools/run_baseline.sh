#!/bin/bash
# Run the repository's pinned test suite (guard off) and compare with BASELINE.json stable_pass.
# usage: tools/run_baseline.sh [repo_dir]
REPO=${1:-/repo}
OUT=$(mktemp -d /var/tmp/verif-baseline.XXXXXX)
cd "$REPO" && env -u PYTEAL_VERIF /venv/bin/python -m pytest -q -p no:cacheprovider --timeout=900 --continue-on-collection-errors -n 16 --junitxml=$OUT/junit.xml > $OUT/log.txt 2>&1
tail -3 $OUT/log.txt
/venv/bin/python - "$OUT/junit.xml" <<'PY'
import json, sys, xml.etree.ElementTree as ET
base = set(json.load(open('/root/.vp/BASELINE.json'))['stable_pass'])
ok = set()
for tc in ET.parse(sys.argv[1]).getroot().iter('testcase'):
    if not any(c.tag in ('failure', 'error', 'skipped') for c in tc):
        ok.add(tc.get('classname') + '::' + tc.get('name'))
missing = sorted(base - ok)
print('baseline stable_pass=%d passed_now=%d missing=%d' % (len(base), len(ok & base), len(missing)))
for m in missing[:40]:
    print('  MISSING', m)
sys.exit(1 if missing else 0)
PY
rc=$?
rm -rf "$OUT"
exit $rc
