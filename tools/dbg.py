#!/venv/bin/python
"""debug helper: tools/dbg.py <replay.json>  -> prints recipe, TEAL, reference and observed outcomes"""
import sys, json
sys.path.insert(0, '/repo'); sys.path.insert(0, '/verif')
sys.setrecursionlimit(100000)
from vlib import rcase, recipes
c = json.load(open(sys.argv[1]))
r = c["recipe"]
print(json.dumps(r)[:6000])
comp = rcase.compile_recipe(r, c["version"], r["mode"], scratch_slots=c.get("scratch_slots", False), frame_pointers=c.get("frame_pointers"))
print(comp.err)
print(comp.teal)
ref, d = rcase.run_ref(r, c["ctx"])
got = rcase.run_avm(comp.prog, c["ctx"])
print("ctx", c["ctx"])
print("REF", ref.status, ref.ret, ref.error, ref.trace)
print("AVM", got.status, got.ret, got.error, got.effects, got.san)
