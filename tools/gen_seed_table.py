#!/usr/bin/env python3
"""Rewrite the seeded-changes table in DESIGN.md (between the SEED-TABLE markers) from seeded/*/meta.json."""
import glob, json, os, re
HERE = os.path.dirname(os.path.dirname(os.path.abspath(__file__)))
rows = []
n = missed = 0
for d in sorted(glob.glob(os.path.join(HERE, "seeded", "*", ""))):
    if not os.path.exists(d + "meta.json"):
        continue  # being evaluated right now
    m = json.load(open(d + "meta.json"))
    caught = ", ".join("%s (%d)" % (k, v["violations"]) for k, v in sorted(m["quick_checks"].items()) if v["exit"] == 1)
    n += 1
    missed += 1 if m.get("history", "").startswith("initially") else 0
    rows.append("| %s | %d | %s | %s | %s |" % (m["name"], m.get("round", 1), m.get("needs_to_manifest", ""), caught, "strengthened" if m.get("history", "").startswith("initially") else ("neighbour" if m.get("history") else "")))
table = "| seeded change | round | needs to manifest | caught by (quick; witnesses, capped at 10) | |\n|---|---|---|---|---|\n" + "\n".join(rows)
p = os.path.join(HERE, "DESIGN.md")
s = open(p).read()
s = re.sub(r"<!-- SEED-TABLE -->.*?<!-- /SEED-TABLE -->", lambda _m: "<!-- SEED-TABLE -->\n" + table + "\n<!-- /SEED-TABLE -->", s, flags=re.S)
open(p, "w").write(s)
print(n, "seeded changes,", missed, "initially missed")
