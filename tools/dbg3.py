#!/venv/bin/python
import sys, json
sys.path.insert(0, '/repo'); sys.path.insert(0, '/verif')
sys.setrecursionlimit(6000)
from vlib import rcase, recipes
from vlib.checks import c03
c = json.load(open(sys.argv[1]))
r = c["recipe"]; v=c["versions"][-1]; ss,fp=c["setting"]
b = rcase.compile_recipe(r, v, "app", scratch_slots=False, frame_pointers=False)
o = rcase.compile_recipe(r, v, "app", scratch_slots=ss, frame_pointers=fp)
import difflib
print("\n".join(difflib.unified_diff(b.teal.split("\n"), o.teal.split("\n"), lineterm="", n=6)))
cd=c["ctx"]
B=rcase.run_avm(b.prog, cd, trace_calls=True); O=rcase.run_avm(o.prog, cd, trace_calls=True)
print("BASE", B.status, B.ret, B.error, B.effects[:5], B.san)
print("OPT ", O.status, O.ret, O.error, O.effects[:5], O.san)
tb, to = c03.stack_trace(B), c03.stack_trace(O)
for i,(x,y) in enumerate(zip(tb,to)):
    if x!=y: print("first ret diff", i, x, y); break
print(len(tb), len(to))
