#!/bin/bash
# usage: tools/sweep.sh quick "3 4 5"   |  tools/sweep.sh thorough "0"
# Runs every check of MANIFEST.json for the given tier and seeds; evidence goes to a scratch directory (sweeps are not evidence).
TIER=$1; SEEDS=$2
cd "$(dirname "$0")/.."
./setup.sh | tail -1
for s in $SEEDS; do
  for id in C01 C02 C03 C04 C05 C06 C07 C08 C09 C10 C11 C12 C13 C14 C15 C16 C17 C18 C19 C20; do
    out=$(VERIF_SEED=$s VERIF_EVIDENCE_DIR=/var/tmp/sweep-ev-$TIER-$s ./check $id --tier $TIER 2>&1)
    echo "$out" | grep -E "^(VIOLATION|  kind=|INCONCLUSIVE|C[0-9]+ tier)" | cut -c1-400
  done
done
echo SWEEP-DONE
