#!/bin/bash
# usage: tools/seed_eval.sh <outdir with patch.diff+demo.py> <name> <property> <check IDs...>
# 1. confirms the demonstration (passes on a clean scratch worktree, fails with the patch), 2. runs the named quick checks against
# a patched scratch copy, 3. stores /verif/seeded/<name>/{patch.diff,demo.py,meta.json}.  Scratch copies are removed.
set -u
SRC="$1"; NAME="$2"; PROP="$3"; shift 3
W=/var/tmp/seedw-$$
git -C /repo worktree add -q --detach $W HEAD || exit 9
( cd $W && PYTHONPATH=$W timeout 600 /venv/bin/python "$SRC/demo.py" >/dev/null 2>&1 ); clean_rc=$?
( cd $W && git apply "$SRC/patch.diff" ) || { echo "patch does not apply"; git -C /repo worktree remove --force $W; exit 9; }
( cd $W && PYTHONPATH=$W timeout 600 /venv/bin/python "$SRC/demo.py" >/dev/null 2>&1 ); patched_rc=$?
git -C /repo worktree remove --force $W
echo "demo: clean rc=$clean_rc patched rc=$patched_rc"
mkdir -p /verif/seeded/$NAME
cp "$SRC/patch.diff" "$SRC/demo.py" /verif/seeded/$NAME/
[ -f "$SRC/notes.md" ] && cp "$SRC/notes.md" /verif/seeded/$NAME/notes.md
RES=""
for id in "$@"; do
  line=$(TIER=${TIER:-quick} /verif/tools/mutant.sh "$SRC/patch.diff" $id 2>&1 | grep "^== ")
  echo "$line"
  RES="$RES$line\n"
done
/venv/bin/python - "$NAME" "$PROP" "$clean_rc" "$patched_rc" "$RES" <<'PY'
import json, sys, re
name, prop, c, p, res = sys.argv[1:6]
checks = {}
for l in res.split("\\n"):
    m = re.match(r"== (\w+) rc=(\d+) violations=(\d+)\s*(.*)", l)
    if m:
        checks[m.group(1)] = {"exit": int(m.group(2)), "violations": int(m.group(3)), "first": m.group(4)[:300]}
meta_path = "/verif/seeded/%s/meta.json" % name
try:
    meta = json.load(open(meta_path))
except Exception:
    meta = {}
meta.update({"name": name, "breaks_property": prop, "demo_exit_clean": int(c), "demo_exit_patched": int(p)})
meta.setdefault("quick_checks", {}).update(checks)
meta["ran"] = "tools/seed_eval.sh: demo.py on a clean scratch worktree and with patch.diff applied; quick checks via tools/mutant.sh (VERIF_REPO=<patched scratch copy>)"
json.dump(meta, open(meta_path, "w"), indent=1)
PY
