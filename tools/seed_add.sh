#!/bin/bash
# usage: tools/seed_add.sh <outdir> <name> <property> <round> "<needs to manifest>" <check IDs...>   (seed_eval + round/needs fields)
set -u
SRC="$1"; NAME="$2"; PROP="$3"; ROUND="$4"; NEEDS="$5"; shift 5
/verif/tools/seed_eval.sh "$SRC" "$NAME" "$PROP" "$@"
/venv/bin/python - "$NAME" "$ROUND" "$NEEDS" <<'PY'
import json, sys
name, rnd, needs = sys.argv[1:4]
p = "/verif/seeded/%s/meta.json" % name
m = json.load(open(p))
m["round"] = int(rnd)
m["needs_to_manifest"] = needs
json.dump(m, open(p, "w"), indent=1)
PY
