#!/bin/bash
# usage: tools/mutant.sh <patch.diff> <ID> [<ID>...]   (self-test: run quick checks against a patched scratch copy of /repo)
# The scratch copy lives outside /repo and /verif and is removed afterwards; evidence goes to a scratch dir too.
set -u
PATCH="$(realpath "$1")"; shift
S=/var/tmp/mutant-$$
mkdir -p $S/ev
rsync -a --exclude .git --exclude __pycache__ /repo/ $S/repo/
if ! (cd $S/repo && patch -p1 -s < "$PATCH"); then echo "PATCH FAILED"; rm -rf $S; exit 9; fi
TIER=${TIER:-quick}
for id in "$@"; do
  out=$(cd /verif && VERIF_REPO=$S/repo VERIF_EVIDENCE_DIR=$S/ev ./check $id --tier $TIER 2>&1)
  rc=$?
  nv=$(echo "$out" | grep -c '^VIOLATION')
  echo "== $id rc=$rc violations=$nv $(echo "$out" | grep -m1 'kind=' | cut -c1-220)"
  echo "$out" | grep -m1 INCONCLUSIVE
done
rm -rf $S
