#!/bin/bash
# usage: tools/replay_test.sh <seeded-name> <ID>: a violation found on the patched copy must replay as a violation there and as 'held' on /repo
set -u
NAME=$1; ID=$2
S=/var/tmp/replaytest-$$
mkdir -p $S/ev
rsync -a --exclude .git --exclude __pycache__ /repo/ $S/repo/
(cd $S/repo && patch -p1 -s < /verif/seeded/$NAME/patch.diff) || { echo "patch failed"; rm -rf $S; exit 9; }
cd /verif
out=$(VERIF_REPO=$S/repo VERIF_EVIDENCE_DIR=$S/ev ./check $ID --tier quick 2>&1)
rp=$(echo "$out" | grep -m1 '^VIOLATION' | sed 's/.*replay=//')
if [ -z "$rp" ]; then echo "$NAME $ID: no violation to replay"; rm -rf $S; exit 1; fi
VERIF_REPO=$S/repo VERIF_EVIDENCE_DIR=$S/ev ./check $ID --replay $rp > $S/r1.txt 2>&1; rc1=$?
VERIF_EVIDENCE_DIR=$S/ev ./check $ID --replay $rp > $S/r2.txt 2>&1; rc2=$?
echo "$NAME $ID: replay on patched tree rc=$rc1 ($(grep -c '^VIOLATION' $S/r1.txt) violation lines), on /repo rc=$rc2 ($(tail -1 $S/r2.txt | cut -c1-80))"
rm -rf $S
