#!/venv/bin/python
"""Regenerate MANIFEST.json from the check modules that exist (vlib/checks/cNN.py with MANIFEST_ENTRY)."""
import importlib
import json
import os
import sys

HERE = os.path.dirname(os.path.dirname(os.path.abspath(__file__)))
sys.path.insert(0, HERE)
props = [json.loads(l) for l in open(os.path.join(HERE, "properties.jsonl"))]
checks, na = [], []
for p in props:
    pid = p["id"]
    path = os.path.join(HERE, "vlib", "checks", pid.lower() + ".py")
    mod = None
    if os.path.exists(path):
        mod = importlib.import_module("vlib.checks." + pid.lower())
    if mod is None or not getattr(mod, "MANIFEST_ENTRY", None):
        na.append({"property_id": pid, "reason": "check not built yet in this round (planned: DESIGN.md section 4 " + pid + ")"})
        continue
    e = mod.MANIFEST_ENTRY
    checks.append({
        "property_id": pid,
        "quick_cmd": "./check %s --tier quick" % pid,
        "thorough_cmd": "./check %s --tier thorough" % pid,
        "evidence_file": "/verif/evidence/%s.json" % pid,
        "replay_cmd_template": "./check %s --replay {path}" % pid,
        "engine": "pyteal-runtime-monitor",
        "level_claimed": {"category": mod.SPEC.get("level", "exploration"), "text": e["text"], "design_ref": "DESIGN.md section 4 " + pid},
        "level_note": e["note"],
        "technique": e["technique"],
    })
man = {
    "version": 1,
    "setup_cmd": "./setup.sh",
    "hooks": {
        "guard": "PYTEAL_VERIF",
        "enable": "no source hooks: every probe is attached from the harness at run time (module-global rebinding, sys.monitoring); workers export PYTEAL_VERIF=1 for symmetry only",
        "baseline_off_cmd": "cd /repo && env -u PYTEAL_VERIF /venv/bin/python -m pytest -q -p no:cacheprovider --timeout=900 --continue-on-collection-errors -n 16",
        "source_commits": [],
        "add_only": True,
    },
    "engines": [{"name": "pyteal-runtime-monitor", "path": "/verif/check", "serves_properties": [c["property_id"] for c in checks],
                 "kind_free_text": "runtime monitoring: real compiler driven by generated/hostile workloads in fresh worker processes; emitted TEAL executed on a reference AVM interpreter carrying sanitizers; independent oracles (recipe evaluator, algosdk ARC-4 codec and ATC client, Go-assembler literal grammar, hand-written AVM language table); probes on pass functions and process globals; sys.monitoring failpoints"}],
    "checks": checks,
    "not_applicable": na,
    "notes": "Verdicts are three-valued: exit 0 held on the executions listed in evidence; exit 1 with VIOLATION lines; exit 2 INCONCLUSIVE when a deciding monitor was not reached or a worker died. Known findings: /verif/known_findings.json.",
}
json.dump(man, open(os.path.join(HERE, "MANIFEST.json"), "w"), indent=1)
print("checks:", [c["property_id"] for c in checks], "not_applicable:", [n["property_id"] for n in na])
