#!/bin/bash
# usage: tools/seed_regress.sh [name-prefix]   re-runs every seeded change against the quick check of the property it breaks
# (plus the extra checks listed in meta.json: quick_checks) and prints one line per (seed, check).  Evidence is not touched.
cd "$(dirname "$0")/.."
for d in seeded/${1:-}*/; do
  name=$(basename $d)
  ids=$(/venv/bin/python -c "import json,sys; m=json.load(open('$d/meta.json')); print(' '.join(sorted(set([m['breaks_property']]+[k for k,v in m.get('quick_checks',{}).items() if v.get('exit')==1]))))")
  for id in $ids; do
    line=$(tools/mutant.sh $d/patch.diff $id 2>&1 | grep "^== " | cut -c1-160)
    echo "$name $line"
  done
done
echo REGRESS-DONE
