"""AVM primitive op semantics shared by the TEAL interpreter and the recipe evaluator (prototype)."""
import hashlib

U64 = 2**64
MAXBYTES = 4096


class Panic(Exception):
    """AVM runtime failure (program fails)."""


def u64(x):
    if not isinstance(x, int) or isinstance(x, bool):
        raise Panic(f"type: expected uint64 got {type(x).__name__}")
    return x


def byt(x):
    if not isinstance(x, (bytes, bytearray)):
        raise Panic(f"type: expected bytes got {type(x).__name__}")
    return bytes(x)


def chkbytes(b):
    if len(b) > MAXBYTES:
        raise Panic("byte string too long")
    return b


def add(a, b):
    r = u64(a) + u64(b)
    if r >= U64:
        raise Panic("+ overflowed")
    return r


def sub(a, b):
    if u64(b) > u64(a):
        raise Panic("- would result negative")
    return a - b


def mul(a, b):
    r = u64(a) * u64(b)
    if r >= U64:
        raise Panic("* overflowed")
    return r


def div(a, b):
    if u64(b) == 0:
        raise Panic("/ 0")
    return u64(a) // b


def mod(a, b):
    if u64(b) == 0:
        raise Panic("% 0")
    return u64(a) % b


def exp(a, b):
    u64(a), u64(b)
    if a == 0 and b == 0:
        raise Panic("0^0 is undefined")
    if a <= 1:
        return 1 if (a == 1 or b == 0) else 0
    if b >= 64:
        raise Panic("exp overflow")
    r = a**b
    if r >= U64:
        raise Panic("exp overflow")
    return r


def expw(a, b):
    u64(a), u64(b)
    if a == 0 and b == 0:
        raise Panic("0^0 is undefined")
    if a <= 1:
        r = 1 if (b == 0 or a == 1) else 0
    else:
        if b > 128:
            raise Panic("expw overflow")
        r = a**b
    if r >= 2**128:
        raise Panic("expw overflow")
    return r >> 64, r & (U64 - 1)


def shl(a, b):
    if u64(b) >= 64:
        raise Panic("shl arg too big")
    return (u64(a) << b) & (U64 - 1)


def shr(a, b):
    if u64(b) >= 64:
        raise Panic("shr arg too big")
    return u64(a) >> b


def isqrt(a):
    import math

    return math.isqrt(u64(a))


def bitlen(a):
    if isinstance(a, int):
        return a.bit_length()
    return int.from_bytes(byt(a), "big").bit_length()


def itob(a):
    return u64(a).to_bytes(8, "big")


def btoi(b):
    if len(byt(b)) > 8:
        raise Panic("btoi arg too long")
    return int.from_bytes(b, "big")


def concat(a, b):
    return chkbytes(byt(a) + byt(b))


def substring(b, s, e):
    byt(b), u64(s), u64(e)
    if e < s:
        raise Panic("substring end before start")
    if e > len(b):
        raise Panic("substring range beyond length of string")
    return b[s:e]


def extract_imm(b, s, l):
    byt(b)
    if l == 0:
        if s > len(b):
            raise Panic("extract range beyond length of string")
        return b[s:]
    return extract3(b, s, l)


def extract3(b, s, l):
    byt(b), u64(s), u64(l)
    if s > len(b) or s + l > len(b):
        raise Panic("extract range beyond length of string")
    return b[s : s + l]


def extract_uint(b, s, n):
    byt(b), u64(s)
    if s + n > len(b):
        raise Panic("extract range beyond length of string")
    return int.from_bytes(b[s : s + n], "big")


def getbit(t, i):
    u64(i)
    if isinstance(t, int):
        if i >= 64:
            raise Panic("getbit index > 63 with Uint")
        return (t >> i) & 1
    byt(t)
    if i // 8 >= len(t):
        raise Panic("getbit index beyond byteslice")
    return (t[i // 8] >> (7 - i % 8)) & 1


def setbit(t, i, v):
    u64(i), u64(v)
    if v > 1:
        raise Panic("setbit value > 1")
    if isinstance(t, int):
        if i >= 64:
            raise Panic("setbit index > 63 with Uint")
        return (t & ~(1 << i)) | (v << i)
    byt(t)
    if i // 8 >= len(t):
        raise Panic("setbit index beyond byteslice")
    ba = bytearray(t)
    m = 1 << (7 - i % 8)
    ba[i // 8] = (ba[i // 8] & ~m) | (m if v else 0)
    return bytes(ba)


def getbyte(b, i):
    byt(b), u64(i)
    if i >= len(b):
        raise Panic("getbyte index beyond array length")
    return b[i]


def setbyte(b, i, v):
    byt(b), u64(i), u64(v)
    if i >= len(b):
        raise Panic("setbyte index beyond array length")
    if v > 255:
        raise Panic("setbyte value > 255")
    ba = bytearray(b)
    ba[i] = v
    return bytes(ba)


def select(a, b, c):
    return b if u64(c) != 0 else a


def mulw(a, b):
    r = u64(a) * u64(b)
    return r >> 64, r & (U64 - 1)


def addw(a, b):
    r = u64(a) + u64(b)
    return r >> 64, r & (U64 - 1)


def divmodw(a, b, c, d):
    n = (u64(a) << 64) | u64(b)
    m = (u64(c) << 64) | u64(d)
    if m == 0:
        raise Panic("divmodw by 0")
    q, r = divmod(n, m)
    return q >> 64, q & (U64 - 1), r >> 64, r & (U64 - 1)


def divw(a, b, c):
    n = (u64(a) << 64) | u64(b)
    if u64(c) == 0:
        raise Panic("divw by 0")
    q = n // c
    if q >= U64:
        raise Panic("divw overflow")
    return q


def eq(a, b):
    if isinstance(a, int) != isinstance(b, int):
        raise Panic("cannot compare (%s to %s)" % (type(a).__name__, type(b).__name__))
    return int(a == b)


# byte math
def _bi(b):
    if len(byt(b)) > 64:
        raise Panic("math attempted on large byte-array")
    return int.from_bytes(b, "big")


def _ib(i):
    return i.to_bytes((i.bit_length() + 7) // 8, "big")


def badd(a, b):
    return _ib(_bi(a) + _bi(b))


def bsub(a, b):
    x, y = _bi(a), _bi(b)
    if y > x:
        raise Panic("byte math would have negative result")
    return _ib(x - y)


def bmul(a, b):
    return _ib(_bi(a) * _bi(b))


def bdiv(a, b):
    x, y = _bi(a), _bi(b)
    if y == 0:
        raise Panic("division by zero")
    return _ib(x // y)


def bmod(a, b):
    x, y = _bi(a), _bi(b)
    if y == 0:
        raise Panic("modulo by zero")
    return _ib(x % y)


def bsqrt(a):
    import math

    return _ib(math.isqrt(_bi(a)))


def _bitop(a, b, f):
    byt(a), byt(b)
    n = max(len(a), len(b))
    a = a.rjust(n, b"\0")
    b = b.rjust(n, b"\0")
    return bytes(f(x, y) for x, y in zip(a, b))


def bor(a, b):
    return _bitop(a, b, lambda x, y: x | y)


def band(a, b):
    return _bitop(a, b, lambda x, y: x & y)


def bxor(a, b):
    return _bitop(a, b, lambda x, y: x ^ y)


def bnot(a):
    return bytes(x ^ 0xFF for x in byt(a))


def bzero(n):
    if u64(n) > MAXBYTES:
        raise Panic("bzero attempted to create a too large string")
    return b"\0" * n


def sha256(b):
    return hashlib.sha256(byt(b)).digest()


def sha512_256(b):
    return hashlib.new("sha512_256", byt(b)).digest()


def keccak256(b):
    from Cryptodome.Hash import keccak

    return keccak.new(digest_bits=256, data=byt(b)).digest()


def sha3_256(b):
    return hashlib.sha3_256(byt(b)).digest()


def replace(a, s, b):
    byt(a), u64(s), byt(b)
    if s + len(b) > len(a):
        raise Panic("replacement end beyond original length")
    return a[:s] + b + a[s + len(b) :]
