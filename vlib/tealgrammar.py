"""TEAL source grammar as the Go assembler reads it: tokenizer, literal decoders, program parser.

Nothing in here imports pyteal.  The tokenizer implements *two* quoting rules for string literals
(the rule of the current go-algorand tokenizer: a quote closes the string iff it is not escaped, and
the legacy rule: a quote closes the string iff the previous character is not a backslash).  Callers
that judge PyTeal output use `decode_both`, which reports a problem only if both rules misread.
"""
import base64
import hashlib
import re
from dataclasses import dataclass, field


class ParseError(Exception):
    pass


def tokenize(line, legacy=False):
    """Split one TEAL source line into tokens following go-algorand's tokensFromLine.
    ';' separators are returned as tokens of their own."""
    toks = []
    i, n = 0, len(line)
    while i < n and line[i] in " \t":
        i += 1
    start = i
    in_str = False
    in_b64 = False
    while i < n:
        c = line[i]
        if c not in " \t":
            if c == '"':
                if not in_str:
                    if i == 0 or line[i - 1] in " \t":
                        in_str = True
                else:
                    if legacy:
                        if line[i - 1] != "\\":
                            in_str = False
                    else:
                        k, bs = i - 1, 0
                        while k >= 0 and line[k] == "\\":
                            bs += 1
                            k -= 1
                        if bs % 2 == 0:
                            in_str = False
            elif c == "/":
                if i + 1 < n and line[i + 1] == "/" and not in_b64 and not in_str:
                    if start != i:
                        toks.append(line[start:i])
                    return toks
            elif c == "(":
                if line[start:i] in ("base64", "b64"):
                    in_b64 = True
            elif c == ")":
                if in_b64:
                    in_b64 = False
            elif c == ";" and not in_str and not in_b64:
                if start != i:
                    toks.append(line[start:i])
                toks.append(";")
                i += 1
                while i < n and line[i] in " \t":
                    i += 1
                start = i
                continue
            i += 1
            continue
        if not in_str:
            tok = line[start:i]
            toks.append(tok)
            if tok in ("base64", "b64"):
                in_b64 = True
            elif in_b64:
                in_b64 = False
        i += 1
        if not in_str:
            while i < n and line[i] in " \t":
                i += 1
            start = i
    if start < n:
        toks.append(line[start:n])
    return toks


def parse_string_literal(tok):
    """Decode a quoted TEAL string literal (parseStringLiteral in go-algorand)."""
    if len(tok) < 2 or tok[0] != '"' or tok[-1] != '"':
        raise ParseError("no quotes")
    raw = tok.encode("utf-8")
    out = bytearray()
    pos, end = 1, len(raw) - 1
    esc = hexs = False
    while pos < end:
        ch = raw[pos]
        if ch == 0x5C and not esc:
            if hexs:
                raise ParseError("escape seq inside hex number")
            esc = True
            pos += 1
            continue
        if esc:
            esc = False
            if ch == ord("n"):
                ch = 10
            elif ch == ord("r"):
                ch = 13
            elif ch == ord("t"):
                ch = 9
            elif ch == 0x5C:
                ch = 0x5C
            elif ch == ord('"'):
                ch = ord('"')
            elif ch == ord("x"):
                hexs = True
                pos += 1
                continue
            else:
                raise ParseError("invalid escape seq \\%c" % ch)
        if hexs:
            hexs = False
            if pos >= len(raw) - 2:
                raise ParseError("non-terminated hex seq")
            try:
                ch = int(raw[pos : pos + 2].decode("ascii"), 16)
            except Exception:
                raise ParseError("bad hex")
            pos += 1
        out.append(ch)
        pos += 1
    if esc or hexs:
        raise ParseError("non-terminated escape seq")
    return bytes(out)


_B32_RE = re.compile(r"[A-Z2-7]*=*\Z")


def _b32(s):
    if not _B32_RE.match(s):
        raise ParseError("bad base32 %r" % s)
    s = s.rstrip("=")
    pad = (-len(s)) % 8
    try:
        return base64.b32decode(s + "=" * pad)
    except Exception:
        raise ParseError("bad base32 %r" % s)


def _b64(s):
    # Go: tries StdEncoding then URLEncoding (both padded)
    if re.fullmatch(r"[A-Za-z0-9+/]*={0,2}", s) and len(s) % 4 == 0:
        try:
            return base64.b64decode(s, validate=True)
        except Exception:
            raise ParseError("bad base64 %r" % s)
    if re.fullmatch(r"[A-Za-z0-9_-]*={0,2}", s) and len(s) % 4 == 0:
        try:
            return base64.urlsafe_b64decode(s)
        except Exception:
            raise ParseError("bad base64 %r" % s)
    raise ParseError("bad base64 %r" % s)


def parse_bytes_args(args):
    """Parse the byte literal at the head of args -> (bytes, tokens consumed)."""
    if not args:
        raise ParseError("byte needs arg")
    a = args[0]
    if a in ("base32", "b32"):
        if len(args) < 2:
            raise ParseError("need literal after base32")
        return _b32(args[1]), 2
    if a in ("base64", "b64"):
        if len(args) < 2:
            raise ParseError("need literal after base64")
        return _b64(args[1]), 2
    for pfx in ("base32(", "b32("):
        if a.startswith(pfx):
            if not a.endswith(")"):
                raise ParseError("byte base32 arg lacks close paren")
            return _b32(a[len(pfx) : -1]), 1
    for pfx in ("base64(", "b64("):
        if a.startswith(pfx):
            if not a.endswith(")"):
                raise ParseError("byte base64 arg lacks close paren")
            return _b64(a[len(pfx) : -1]), 1
    if a.startswith("0x"):
        try:
            return bytes.fromhex(a[2:]), 1
        except ValueError:
            raise ParseError("bad hex %r" % a)
    if a.startswith('"'):
        return parse_string_literal(a), 1
    raise ParseError("byte arg did not parse: %r" % a)


INT_CONSTS = {
    "NoOp": 0, "OptIn": 1, "CloseOut": 2, "ClearState": 3, "UpdateApplication": 4, "DeleteApplication": 5,
    "unknown": 0, "pay": 1, "keyreg": 2, "acfg": 3, "axfer": 4, "afrz": 5, "appl": 6,
}


def parse_int(tok):
    if tok in INT_CONSTS:
        return INT_CONSTS[tok]
    try:
        # Go strconv.ParseUint(s, 0, 64): 0x, 0o, 0b, leading 0 = octal, underscores only with prefix
        if tok.startswith(("0x", "0X")):
            v = int(tok[2:], 16)
        elif tok.startswith(("0o", "0O")):
            v = int(tok[2:], 8)
        elif tok.startswith(("0b", "0B")):
            v = int(tok[2:], 2)
        elif len(tok) > 1 and tok[0] == "0":
            v = int(tok, 8)
        else:
            if not tok.isdigit() or not tok.isascii():
                raise ValueError(tok)
            v = int(tok, 10)
    except ValueError:
        raise ParseError("bad int %r" % tok)
    if not 0 <= v < 2**64:
        raise ParseError("int out of range")
    return v


def decode_address(s):
    if len(s) != 58:
        raise ParseError("bad address length")
    raw = _b32(s)
    if len(raw) != 36:
        raise ParseError("bad address")
    pk, ck = raw[:32], raw[32:]
    if hashlib.new("sha512_256", pk).digest()[-4:] != ck:
        raise ParseError("bad address checksum")
    return pk


def method_selector(tok):
    if not (len(tok) > 1 and tok[0] == '"' and tok[-1] == '"'):
        raise ParseError("unable to parse method signature")
    return hashlib.new("sha512_256", tok[1:-1].encode()).digest()[:4]


@dataclass
class Instr:
    op: str
    args: list
    line: int  # 1-based source line


@dataclass
class Program:
    version: int
    instrs: list
    labels: dict  # name -> instruction index
    text: str
    label_lines: dict = field(default_factory=dict)
    has_pragma_first: bool = False
    dup_labels: list = field(default_factory=list)


def split_lines(text):
    # Go's bufio.Scanner: split at \n, strip one trailing \r
    return [l[:-1] if l.endswith("\r") else l for l in text.split("\n")]


def parse(text, legacy=False, strict_labels=True):
    version = None
    instrs, labels, label_lines = [], {}, {}
    dups = []
    first_seen = False
    pragma_first = False
    for ln, line in enumerate(split_lines(text), 1):
        toks = tokenize(line, legacy)
        if not toks:
            continue
        if toks[0].startswith("#pragma"):
            if toks[0] != "#pragma":
                raise ParseError("bad pragma")
            if len(toks) >= 3 and toks[1] == "version":
                if instrs or labels or version is not None:
                    raise ParseError("pragma version after statements")
                if not toks[2].isdigit():
                    raise ParseError("bad pragma version")
                version = int(toks[2])
                if len(toks) > 3:
                    raise ParseError("extra tokens after pragma version")
                if not first_seen:
                    pragma_first = True
            elif len(toks) >= 3 and toks[1] == "typetrack":
                pass
            else:
                raise ParseError("bad pragma")
            first_seen = True
            continue
        first_seen = True
        stmts, cur = [], []
        for t in toks:
            if t == ";":
                stmts.append(cur)
                cur = []
            else:
                cur.append(t)
        stmts.append(cur)
        for st in stmts:
            if not st:
                continue
            if st[0].endswith(":") and not st[0].startswith('"'):
                lab = st[0][:-1]
                if lab in labels:
                    dups.append(lab)
                    if strict_labels:
                        raise ParseError("duplicate label %s" % lab)
                labels[lab] = len(instrs)
                label_lines[lab] = ln
                st = st[1:]
                if not st:
                    continue
            instrs.append(Instr(st[0], st[1:], ln))
    if version is None:
        version = 1
    return Program(version, instrs, labels, text, label_lines, pragma_first, dups)


def parse_any(text):
    """Parse under the current quoting rule, falling back to the legacy one."""
    try:
        return parse(text, legacy=False)
    except ParseError:
        return parse(text, legacy=True)


def strip_comments(text):
    """Instruction stream of a program: list of token lists (labels included), comments dropped."""
    out = []
    for line in split_lines(text):
        toks = tokenize(line)
        if toks:
            out.append(toks)
    return out
