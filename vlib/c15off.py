"""Gate-off side of C15: python -m vlib.c15off <dir> <cases.json> <out.json>
Imports the generated modules in a process where the source-map feature gate was never enabled and compiles them plainly."""
import importlib
import json
import sys


def main():
    d, cases_p, out_p = sys.argv[1:4]
    sys.path.insert(0, d)
    sys.setrecursionlimit(6000)
    import pyteal as pt
    out = {}
    for c in json.load(open(cases_p)):
        try:
            m = importlib.import_module(c["main"])
            if c["entry"] == "program":
                out[c["main"]] = pt.compileTeal(m.program(), pt.Mode.Application, version=c["version"], assembleConstants=bool(c.get("assemble")),
                                                **({} if c.get("typetrack", True) else {"assembly_type_track": False}))
            else:
                ap, cl, _ = m.router().compile_program(version=c["version"], assemble_constants=bool(c.get("assemble")))
                out[c["main"]] = ap + "\n=====\n" + cl
        except Exception as e:
            out[c["main"]] = "EXC:%s:%s" % (type(e).__name__, str(e)[:200])
    json.dump(out, open(out_p, "w"))


if __name__ == "__main__":
    main()
