"""Hand-written AVM language table (independent of pyteal's own tables).

OPS: name -> Spec(min_version, modes, imm, pops, pushes, conf)
  modes: "sa" both, "s" LogicSig only, "a" Application only
  imm:   tuple describing the immediates (see IMM kinds below)
  pops / pushes: strings over i (uint64) b (bytes) a (any); pops listed bottom..top
  conf:  "certain" entries may produce violations; "uncertain" ones are only counted

Only versions 1..10 are described (PyTeal's MAX_PROGRAM_VERSION is 10); ops PyTeal lists for v11+
are recorded with their version so a program emitted at <=10 that contains them is illegal.
"""
from collections import namedtuple

Spec = namedtuple("Spec", "minv modes imm pops pushes conf")

# immediate kinds
U8 = "u8"  # 0..255
I8 = "i8"  # -128..127 (frame_dig / frame_bury)
LABEL = "label"
INTLIT = "int"  # uint64 literal or named constant
BYTELIT = "bytes"  # byte literal (1 or 2 tokens)
INTS = "ints"
BYTESS = "bytess"
ADDR = "addr"
METHOD = "method"
F_TXN, F_TXNA, F_GLOBAL = "f:txn", "f:txna", "f:global"
F_AHOLD, F_APARAM, F_APP, F_ACCT, F_BLOCK = "f:asset_holding", "f:asset_params", "f:app_params", "f:acct_params", "f:block"
F_B64, F_JSON, F_ECDSA, F_EC, F_VRF, F_ITXN = "f:base64", "f:json", "f:ecdsa", "f:ec", "f:vrf", "f:itxn_field"
F_TXN_ANY = "f:txn_any"  # gtxns-like: scalar field, or array field given with an index by *a ops

C, UNC = "certain", "uncertain"


def _s(minv, modes, imm, pops, pushes, conf=C):
    return Spec(minv, modes, tuple(imm), pops, pushes, conf)


OPS = {
    "err": _s(1, "sa", [], "", ""),
    "sha256": _s(1, "sa", [], "b", "b"),
    "keccak256": _s(1, "sa", [], "b", "b"),
    "sha512_256": _s(1, "sa", [], "b", "b"),
    "ed25519verify": _s(1, "sa", [], "bbb", "i", UNC),  # app mode only from v5
    "+": _s(1, "sa", [], "ii", "i"), "-": _s(1, "sa", [], "ii", "i"), "/": _s(1, "sa", [], "ii", "i"),
    "*": _s(1, "sa", [], "ii", "i"), "<": _s(1, "sa", [], "ii", "i"), ">": _s(1, "sa", [], "ii", "i"),
    "<=": _s(1, "sa", [], "ii", "i"), ">=": _s(1, "sa", [], "ii", "i"), "&&": _s(1, "sa", [], "ii", "i"),
    "||": _s(1, "sa", [], "ii", "i"), "==": _s(1, "sa", [], "aa", "i"), "!=": _s(1, "sa", [], "aa", "i"),
    "!": _s(1, "sa", [], "i", "i"), "len": _s(1, "sa", [], "b", "i"), "itob": _s(1, "sa", [], "i", "b"),
    "btoi": _s(1, "sa", [], "b", "i"), "%": _s(1, "sa", [], "ii", "i"), "|": _s(1, "sa", [], "ii", "i"),
    "&": _s(1, "sa", [], "ii", "i"), "^": _s(1, "sa", [], "ii", "i"), "~": _s(1, "sa", [], "i", "i"),
    "mulw": _s(1, "sa", [], "ii", "ii"), "addw": _s(2, "sa", [], "ii", "ii"),
    "divmodw": _s(4, "sa", [], "iiii", "iiii"),
    "intcblock": _s(1, "sa", [INTS], "", ""), "intc": _s(1, "sa", [U8], "", "i"),
    "intc_0": _s(1, "sa", [], "", "i"), "intc_1": _s(1, "sa", [], "", "i"), "intc_2": _s(1, "sa", [], "", "i"),
    "intc_3": _s(1, "sa", [], "", "i"),
    "bytecblock": _s(1, "sa", [BYTESS], "", ""), "bytec": _s(1, "sa", [U8], "", "b"),
    "bytec_0": _s(1, "sa", [], "", "b"), "bytec_1": _s(1, "sa", [], "", "b"), "bytec_2": _s(1, "sa", [], "", "b"),
    "bytec_3": _s(1, "sa", [], "", "b"),
    # pseudo-ops
    "int": _s(1, "sa", [INTLIT], "", "i"), "byte": _s(1, "sa", [BYTELIT], "", "b"),
    "addr": _s(1, "sa", [ADDR], "", "b"), "method": _s(1, "sa", [METHOD], "", "b"),
    "arg": _s(1, "s", [U8], "", "b"),
    "arg_0": _s(1, "s", [], "", "b"), "arg_1": _s(1, "s", [], "", "b"), "arg_2": _s(1, "s", [], "", "b"),
    "arg_3": _s(1, "s", [], "", "b"),
    "txn": _s(1, "sa", [F_TXN], "", "a"), "global": _s(1, "sa", [F_GLOBAL], "", "a"),
    "gtxn": _s(1, "sa", [U8, F_TXN], "", "a"),
    "load": _s(1, "sa", [U8], "", "a"), "store": _s(1, "sa", [U8], "a", ""),
    "txna": _s(2, "sa", [F_TXNA, U8], "", "a"), "gtxna": _s(2, "sa", [U8, F_TXNA, U8], "", "a"),
    "gtxns": _s(3, "sa", [F_TXN], "i", "a"), "gtxnsa": _s(3, "sa", [F_TXNA, U8], "i", "a"),
    "gload": _s(4, "a", [U8, U8], "", "a"), "gloads": _s(4, "a", [U8], "i", "a"),
    "gaid": _s(4, "a", [U8], "", "i"), "gaids": _s(4, "a", [], "i", "i"),
    "bnz": _s(1, "sa", [LABEL], "i", ""), "bz": _s(2, "sa", [LABEL], "i", ""), "b": _s(2, "sa", [LABEL], "", ""),
    "return": _s(2, "sa", [], "i", ""), "assert": _s(3, "sa", [], "i", ""),
    "pop": _s(1, "sa", [], "a", ""), "dup": _s(1, "sa", [], "a", "aa"), "dup2": _s(2, "sa", [], "aa", "aaaa"),
    "dig": _s(3, "sa", [U8], None, None), "swap": _s(3, "sa", [], "aa", "aa"),
    "select": _s(3, "sa", [], "aai", "a"),
    "cover": _s(5, "sa", [U8], None, None), "uncover": _s(5, "sa", [U8], None, None),
    "concat": _s(2, "sa", [], "bb", "b"),
    "substring": _s(2, "sa", [U8, U8], "b", "b"), "substring3": _s(2, "sa", [], "bii", "b"),
    "getbit": _s(3, "sa", [], "ai", "i"), "setbit": _s(3, "sa", [], "aii", "a"),
    "getbyte": _s(3, "sa", [], "bi", "i"), "setbyte": _s(3, "sa", [], "bii", "b"),
    "extract": _s(5, "sa", [U8, U8], "b", "b"), "extract3": _s(5, "sa", [], "bii", "b"),
    "extract_uint16": _s(5, "sa", [], "bi", "i"), "extract_uint32": _s(5, "sa", [], "bi", "i"),
    "extract_uint64": _s(5, "sa", [], "bi", "i"),
    "replace2": _s(7, "sa", [U8], "bb", "b"), "replace3": _s(7, "sa", [], "bib", "b"),
    "base64_decode": _s(7, "sa", [F_B64], "b", "b"), "json_ref": _s(7, "sa", [F_JSON], "bb", "a"),
    "balance": _s(2, "a", [], "a", "i"), "app_opted_in": _s(2, "a", [], "ai", "i"),
    "app_local_get": _s(2, "a", [], "ab", "a"), "app_local_get_ex": _s(2, "a", [], "aib", "ai"),
    "app_global_get": _s(2, "a", [], "b", "a"), "app_global_get_ex": _s(2, "a", [], "ib", "ai"),
    "app_local_put": _s(2, "a", [], "aba", ""), "app_global_put": _s(2, "a", [], "ba", ""),
    "app_local_del": _s(2, "a", [], "ab", ""), "app_global_del": _s(2, "a", [], "b", ""),
    "asset_holding_get": _s(2, "a", [F_AHOLD], "ai", "ai"), "asset_params_get": _s(2, "a", [F_APARAM], "i", "ai"),
    "app_params_get": _s(5, "a", [F_APP], "i", "ai"), "acct_params_get": _s(6, "a", [F_ACCT], "a", "ai"),
    "min_balance": _s(3, "a", [], "a", "i"),
    "pushbytes": _s(3, "sa", [BYTELIT], "", "b"), "pushint": _s(3, "sa", [INTLIT], "", "i"),
    "pushbytess": _s(8, "sa", [BYTESS], "", None), "pushints": _s(8, "sa", [INTS], "", None),
    "ed25519verify_bare": _s(7, "sa", [], "bbb", "i"),
    "callsub": _s(4, "sa", [LABEL], None, None), "retsub": _s(4, "sa", [], None, None),
    "proto": _s(8, "sa", [U8, U8], "", ""),
    "frame_dig": _s(8, "sa", [I8], "", "a"), "frame_bury": _s(8, "sa", [I8], "a", ""),
    "switch": _s(8, "sa", ["labels"], "i", ""), "match": _s(8, "sa", ["labels"], None, None),
    "shl": _s(4, "sa", [], "ii", "i"), "shr": _s(4, "sa", [], "ii", "i"), "sqrt": _s(4, "sa", [], "i", "i"),
    "bitlen": _s(4, "sa", [], "a", "i"), "exp": _s(4, "sa", [], "ii", "i"), "expw": _s(4, "sa", [], "ii", "ii"),
    "bsqrt": _s(6, "sa", [], "b", "b"), "divw": _s(6, "sa", [], "iii", "i"),
    "sha3_256": _s(7, "sa", [], "b", "b"),
    "b+": _s(4, "sa", [], "bb", "b"), "b-": _s(4, "sa", [], "bb", "b"), "b/": _s(4, "sa", [], "bb", "b"),
    "b*": _s(4, "sa", [], "bb", "b"), "b<": _s(4, "sa", [], "bb", "i"), "b>": _s(4, "sa", [], "bb", "i"),
    "b<=": _s(4, "sa", [], "bb", "i"), "b>=": _s(4, "sa", [], "bb", "i"), "b==": _s(4, "sa", [], "bb", "i"),
    "b!=": _s(4, "sa", [], "bb", "i"), "b%": _s(4, "sa", [], "bb", "b"), "b|": _s(4, "sa", [], "bb", "b"),
    "b&": _s(4, "sa", [], "bb", "b"), "b^": _s(4, "sa", [], "bb", "b"), "b~": _s(4, "sa", [], "b", "b"),
    "bzero": _s(4, "sa", [], "i", "b"),
    "log": _s(5, "a", [], "b", ""),
    "itxn_begin": _s(5, "a", [], "", ""), "itxn_field": _s(5, "a", [F_ITXN], "a", ""),
    "itxn_submit": _s(5, "a", [], "", ""), "itxn_next": _s(6, "a", [], "", ""),
    "itxn": _s(5, "a", [F_TXN], "", "a"), "itxna": _s(5, "a", [F_TXNA, U8], "", "a"),
    "itxnas": _s(6, "a", [F_TXNA], "i", "a"),
    "gitxn": _s(6, "a", [U8, F_TXN], "", "a"), "gitxna": _s(6, "a", [U8, F_TXNA, U8], "", "a"),
    "gitxnas": _s(6, "a", [U8, F_TXNA], "i", "a"),
    "txnas": _s(5, "sa", [F_TXNA], "i", "a"), "gtxnas": _s(5, "sa", [U8, F_TXNA], "i", "a"),
    "gtxnsas": _s(5, "sa", [F_TXNA], "ii", "a"), "args": _s(5, "s", [], "i", "b"),
    "gloadss": _s(6, "a", [], "ii", "a"),
    "loads": _s(5, "sa", [], "i", "a"), "stores": _s(5, "sa", [], "ia", ""),
    "ecdsa_verify": _s(5, "sa", [F_ECDSA], "bbbbb", "i"),
    "ecdsa_pk_decompress": _s(5, "sa", [F_ECDSA], "b", "bb"),
    "ecdsa_pk_recover": _s(5, "sa", [F_ECDSA], "bibb", "bb"),
    "vrf_verify": _s(7, "sa", [F_VRF], "bbb", "bi"), "block": _s(7, "sa", [F_BLOCK], "i", "a"),
    "box_create": _s(8, "a", [], "bi", "i"), "box_extract": _s(8, "a", [], "bii", "b"),
    "box_replace": _s(8, "a", [], "bib", ""), "box_del": _s(8, "a", [], "b", "i"),
    "box_len": _s(8, "a", [], "b", "ii"), "box_get": _s(8, "a", [], "b", "bi"), "box_put": _s(8, "a", [], "bb", ""),
    "popn": _s(8, "sa", [U8], None, None), "dupn": _s(8, "sa", [U8], None, None), "bury": _s(8, "sa", [U8], None, None),
    "box_splice": _s(10, "a", [], "biib", ""), "box_resize": _s(10, "a", [], "bi", ""),
    "ec_add": _s(10, "sa", [F_EC], "bb", "b"), "ec_scalar_mul": _s(10, "sa", [F_EC], "bb", "b"),
    "ec_pairing_check": _s(10, "sa", [F_EC], "bb", "i"), "ec_multi_scalar_mul": _s(10, "sa", [F_EC], "bb", "b"),
    "ec_subgroup_check": _s(10, "sa", [F_EC], "b", "i"), "ec_map_to": _s(10, "sa", [F_EC], "b", "b"),
    # v11+ (never legal for PyTeal's version range)
    "mimc": _s(11, "sa", ["f:mimc"], "b", "b"), "voter_params_get": _s(11, "a", ["f:voter"], "a", "ai"),
    "online_stake": _s(11, "a", [], "", "i"), "sumhash512": _s(13, "sa", [], "b", "b"),
    "falcon_verify": _s(12, "sa", [], "bbb", "i"),
}

# ---------------------------------------------------------------- fields: name -> (min_version, type, is_array)
TXN_FIELDS = {}


def _tf(v, ty, *names, arr=False):
    for n in names:
        TXN_FIELDS[n] = (v, ty, arr)


_tf(1, "b", "Sender", "Note", "Lease", "Receiver", "CloseRemainderTo", "VotePK", "SelectionPK", "Type", "AssetSender",
    "AssetReceiver", "AssetCloseTo", "TxID")
_tf(1, "i", "Fee", "FirstValid", "LastValid", "Amount", "VoteFirst", "VoteLast", "VoteKeyDilution", "TypeEnum",
    "XferAsset", "AssetAmount", "GroupIndex")
_tf(7, "i", "FirstValidTime")
_tf(2, "i", "ApplicationID", "OnCompletion", "NumAppArgs", "NumAccounts", "ConfigAsset", "ConfigAssetTotal",
    "ConfigAssetDecimals", "ConfigAssetDefaultFrozen", "FreezeAsset", "FreezeAssetFrozen")
_tf(2, "b", "ApprovalProgram", "ClearStateProgram", "RekeyTo", "ConfigAssetUnitName", "ConfigAssetName", "ConfigAssetURL",
    "ConfigAssetMetadataHash", "ConfigAssetManager", "ConfigAssetReserve", "ConfigAssetFreeze", "ConfigAssetClawback",
    "FreezeAssetAccount")
_tf(2, "b", "ApplicationArgs", "Accounts", arr=True)
_tf(3, "i", "Assets", "Applications", arr=True)
_tf(3, "i", "NumAssets", "NumApplications", "GlobalNumUint", "GlobalNumByteSlice", "LocalNumUint", "LocalNumByteSlice")
_tf(4, "i", "ExtraProgramPages")
_tf(5, "i", "Nonparticipation", "NumLogs", "CreatedAssetID", "CreatedApplicationID")
_tf(5, "b", "Logs", arr=True)
_tf(6, "b", "LastLog", "StateProofPK")
_tf(7, "b", "ApprovalProgramPages", "ClearStateProgramPages", arr=True)
_tf(7, "i", "NumApprovalProgramPages", "NumClearStateProgramPages")

GLOBAL_FIELDS = {
    "MinTxnFee": (1, "i"), "MinBalance": (1, "i"), "MaxTxnLife": (1, "i"), "ZeroAddress": (1, "b"), "GroupSize": (1, "i"),
    "LogicSigVersion": (2, "i"), "Round": (2, "i"), "LatestTimestamp": (2, "i"), "CurrentApplicationID": (2, "i"),
    "CreatorAddress": (3, "b"), "CurrentApplicationAddress": (5, "b"), "GroupID": (5, "b"),
    "OpcodeBudget": (6, "i"), "CallerApplicationID": (6, "i"), "CallerApplicationAddress": (6, "b"),
    "AssetCreateMinBalance": (10, "i"), "AssetOptInMinBalance": (10, "i"), "GenesisHash": (10, "b"),
    "PayoutsEnabled": (11, "i"), "PayoutsGoOnlineFee": (11, "i"), "PayoutsPercent": (11, "i"),
    "PayoutsMinBalance": (11, "i"), "PayoutsMaxBalance": (11, "i"),
}
ASSET_HOLDING_FIELDS = {"AssetBalance": (2, "i"), "AssetFrozen": (2, "i")}
ASSET_PARAMS_FIELDS = {
    "AssetTotal": (2, "i"), "AssetDecimals": (2, "i"), "AssetDefaultFrozen": (2, "i"), "AssetUnitName": (2, "b"),
    "AssetName": (2, "b"), "AssetURL": (2, "b"), "AssetMetadataHash": (2, "b"), "AssetManager": (2, "b"),
    "AssetReserve": (2, "b"), "AssetFreeze": (2, "b"), "AssetClawback": (2, "b"), "AssetCreator": (5, "b"),
}
APP_PARAMS_FIELDS = {
    "AppApprovalProgram": (5, "b"), "AppClearStateProgram": (5, "b"), "AppGlobalNumUint": (5, "i"),
    "AppGlobalNumByteSlice": (5, "i"), "AppLocalNumUint": (5, "i"), "AppLocalNumByteSlice": (5, "i"),
    "AppExtraProgramPages": (5, "i"), "AppCreator": (5, "b"), "AppAddress": (5, "b"), "AppVersion": (12, "i"),
}
ACCT_PARAMS_FIELDS = {
    "AcctBalance": (6, "i"), "AcctMinBalance": (6, "i"), "AcctAuthAddr": (6, "b"),
    "AcctTotalNumUint": (8, "i"), "AcctTotalNumByteSlice": (8, "i"), "AcctTotalExtraAppPages": (8, "i"),
    "AcctTotalAppsCreated": (8, "i"), "AcctTotalAppsOptedIn": (8, "i"), "AcctTotalAssetsCreated": (8, "i"),
    "AcctTotalAssets": (8, "i"), "AcctTotalBoxes": (8, "i"), "AcctTotalBoxBytes": (8, "i"),
    "AcctIncentiveEligible": (11, "i"), "AcctLastProposed": (11, "i"), "AcctLastHeartbeat": (11, "i"),
}
BLOCK_FIELDS = {
    "BlkSeed": (7, "b"), "BlkTimestamp": (7, "i"), "BlkProposer": (11, "b"), "BlkFeesCollected": (11, "i"),
    "BlkBonus": (11, "i"), "BlkBranch": (11, "b"), "BlkFeeSink": (11, "b"), "BlkProtocol": (11, "b"),
    "BlkTxnCounter": (11, "i"), "BlkProposerPayout": (11, "i"),
}
B64_FIELDS = {"URLEncoding": (7, "b"), "StdEncoding": (7, "b")}
JSON_FIELDS = {"JSONString": (7, "b"), "JSONUint64": (7, "i"), "JSONObject": (7, "b")}
ECDSA_FIELDS = {"Secp256k1": (5, "b"), "Secp256r1": (7, "b")}
EC_FIELDS = {"BN254g1": (10, "b"), "BN254g2": (10, "b"), "BLS12_381g1": (10, "b"), "BLS12_381g2": (10, "b")}
VRF_FIELDS = {"VrfAlgorand": (7, "b")}

FIELD_TABLES = {
    F_GLOBAL: GLOBAL_FIELDS, F_AHOLD: ASSET_HOLDING_FIELDS, F_APARAM: ASSET_PARAMS_FIELDS, F_APP: APP_PARAMS_FIELDS,
    F_ACCT: ACCT_PARAMS_FIELDS, F_BLOCK: BLOCK_FIELDS, F_B64: B64_FIELDS, F_JSON: JSON_FIELDS, F_ECDSA: ECDSA_FIELDS,
    F_EC: EC_FIELDS, F_VRF: VRF_FIELDS,
}

# fields an inner transaction may not set (read-only / derived) -- counted only, never alarmed
ITXN_UNSETTABLE = {"TxID", "GroupIndex", "FirstValid", "FirstValidTime", "LastValid", "Lease", "NumAppArgs", "NumAccounts",
                   "NumAssets", "NumApplications", "NumLogs", "Logs", "LastLog", "CreatedAssetID", "CreatedApplicationID",
                   "NumApprovalProgramPages", "NumClearStateProgramPages"}


def field_type(kind, name):
    """Stack type pushed by a field read."""
    if kind in (F_TXN, F_TXNA, F_ITXN):
        e = TXN_FIELDS.get(name)
        return e[1] if e else "a"
    t = FIELD_TABLES.get(kind, {}).get(name)
    return t[1] if t else "a"
