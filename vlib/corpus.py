"""The repository's own example programs as a workload (C03 differential, C04 legality, C05 discipline).

entries(pt) -> list of (name, mode, min_version, thunk) where thunk() builds a fresh expression (or, for routers, returns
("router", Router)).  Worker-side; imports the repository's `examples` and `tests.teal` packages from VERIF_REPO.
"""
import importlib


def entries(pt):
    out = []

    def add(name, mode, minv, modname, fn, *args, **kw):
        def thunk():
            m = importlib.import_module(modname)
            return getattr(m, fn)(*args, **kw)
        out.append((name, mode, minv, thunk))
    add("asset.approval", "app", 2, "examples.application.asset", "approval_program")
    add("asset.clear", "app", 2, "examples.application.asset", "clear_state_program")
    add("vote.approval", "app", 2, "examples.application.vote", "approval_program")
    add("vote.clear", "app", 2, "examples.application.vote", "clear_state_program")
    add("security_token.approval", "app", 2, "examples.application.security_token", "approval_program")
    add("security_token.clear", "app", 2, "examples.application.security_token", "clear_state_program")
    for fn in ("approval_program_explicit_ensure", "approval_program_oncall_ensure", "approval_program_explicit_maximize", "approval_program_oncall_maximize"):
        add("opup." + fn, "app", 6, "examples.application.opup", fn)
    add("rps.approval", "app", 5, "tests.teal.rps", "approval_program")
    add("rps.clear", "app", 5, "tests.teal.rps", "clear_state_program")
    add("sig.basic", "sig", 2, "examples.signature.basic", "bank_for_account", "ZZAF5ARA4MEC5PVDOP64JM5O5MQST63Q2KOY2FLYFLXXD3PFSNJJBYAFZM")
    add("sig.atomic_swap", "sig", 2, "examples.signature.atomic_swap", "htlc")
    add("sig.dutch_auction", "sig", 2, "examples.signature.dutch_auction", "dutch_auction")
    add("sig.split", "sig", 2, "examples.signature.split", "split")
    add("sig.periodic_payment", "sig", 2, "examples.signature.periodic_payment", "periodic_payment")
    add("sig.recurring_swap", "sig", 2, "examples.signature.recurring_swap", "recurring_swap")
    add("sig.factorizer", "sig", 5, "examples.signature.factorizer_game", "logicsig", 1, 5, 7)

    def algobank():
        m = importlib.import_module("examples.application.abi.algobank")
        return ("router", m.router)
    out.append(("algobank.router", "app", 6, algobank))
    return out


def compile_entry(pt, entry, version, ss=None, fp=None, assemble=False):
    """Returns list of (label, teal) - one text for plain programs, two for routers.  Raises what the compiler raises."""
    name, mode, minv, thunk = entry
    opt = pt.OptimizeOptions(scratch_slots=ss, frame_pointers=fp) if (ss is not None or fp is not None) else None
    obj = thunk()
    if isinstance(obj, tuple) and obj[0] == "router":
        ap, cl, _ = obj[1].compile_program(version=version, assemble_constants=assemble, optimize=opt)
        return [(name + ":approval", ap), (name + ":clear", cl)]
    m = pt.Mode.Application if mode == "app" else pt.Mode.Signature
    return [(name, pt.compileTeal(obj, m, version=version, optimize=opt, assembleConstants=assemble))]
