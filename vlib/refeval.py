"""Reference evaluator of recipes: a big-step interpreter of the *source* semantics of a PyTeal program,
written against the documented meaning of the constructors.  Never imports pyteal.

It shares with the AVM interpreter only prims.py (what an operator means) and the context readers
(txn/global fields), so everything the compiler is responsible for - operand order, branch polarity, loop
wiring, slot/frame plumbing, spill code, optimiser deletions - is seen by one side only.
"""
from . import prims as P
from .avm import Ctx, global_field, gtxn, txn_field
from .prims import Panic

U64 = 2**64


class Diverged(Exception):
    pass


class ResourceLimit(Exception):
    pass


class _Return(Exception):
    def __init__(self, value):
        self.value = value


class _Exit(Exception):
    """Program exit from anywhere (Approve / Reject / Return in main)."""

    def __init__(self, value):
        self.value = value


class _Break(Exception):
    pass


class _Continue(Exception):
    pass


class Cell:
    __slots__ = ("v", "written")

    def __init__(self, v=0):
        self.v = v
        self.written = False


class Outcome:
    def __init__(self, status, ret=None, error="", trace=None, logs=None, slots=None, cov=None, steps=0, maxdepth=0,
                 uninit=None, recursion=None):
        self.recursion = recursion or set()
        self.status, self.ret, self.error = status, ret, error
        self.trace = trace or []
        self.logs = logs or []
        self.slots = slots or {}
        self.cov = cov or {}
        self.steps = steps
        self.maxdepth = maxdepth
        self.uninit = uninit or []


BIN = {
    "+": P.add, "-": P.sub, "*": P.mul, "/": P.div, "%": P.mod, "exp": P.exp, "shl": P.shl, "shr": P.shr,
    "<": lambda x, y: int(P.u64(x) < P.u64(y)), ">": lambda x, y: int(P.u64(x) > P.u64(y)),
    "<=": lambda x, y: int(P.u64(x) <= P.u64(y)), ">=": lambda x, y: int(P.u64(x) >= P.u64(y)),
    "==": P.eq, "!=": lambda x, y: 1 - P.eq(x, y),
    "|": lambda x, y: P.u64(x) | P.u64(y), "&": lambda x, y: P.u64(x) & P.u64(y), "^": lambda x, y: P.u64(x) ^ P.u64(y),
    "&&": lambda x, y: int(P.u64(x) != 0 and P.u64(y) != 0), "||": lambda x, y: int(P.u64(x) != 0 or P.u64(y) != 0),
}
BBIN = {"b+": P.badd, "b-": P.bsub, "b*": P.bmul, "b/": P.bdiv, "b%": P.bmod, "b|": P.bor, "b&": P.band, "b^": P.bxor}
BCMP = {"b<": lambda x, y: x < y, "b>": lambda x, y: x > y, "b<=": lambda x, y: x <= y, "b>=": lambda x, y: x >= y,
        "b==": lambda x, y: x == y, "b!=": lambda x, y: x != y}


class Evaluator:
    def __init__(self, recipe, ctx, max_steps=60000, max_depth=40):
        self.r = recipe
        self.ctx = ctx
        self.txn = ctx.group[ctx.gi]
        self.globals = {}
        self.vardefs = {v["id"]: v for v in recipe.get("vars", [])}
        for v in recipe.get("vars", []):
            self.globals[v["id"]] = Cell(0)
        self.dyn = {}  # dynamic var id -> var id it points at
        self.trace = []
        self.logs = []
        self.steps = 0
        self.max_steps = max_steps
        self.max_depth = max_depth
        self.depth = 0
        self.maxdepth_seen = 0
        self.frames = []
        self.cov = {}
        self.uninit = []
        self.itxn_count = 0
        self.recursion_events = set()

    # ------------------------------------------------------------------ helpers
    def tick(self):
        self.steps += 1
        if self.steps > self.max_steps:
            raise Diverged()

    def covmark(self, node, outcome):
        k = id(node)
        s = self.cov.setdefault(k, set())
        s.add(outcome)

    def cell(self, vid):
        if self.frames:
            f = self.frames[-1]
            c = f["locals"].get(vid)
            if c is not None:
                return c
        c = self.globals.get(vid)
        if c is None:
            raise KeyError("unknown variable %r" % vid)
        return c

    def vartype(self, vid):
        if self.frames:
            d = self.frames[-1]["defs"].get(vid)
            if d is not None:
                return d
        return self.vardefs[vid]

    def store_var(self, vid, val):
        d = self.vartype(vid)
        kind = d.get("kind", "sv")
        if kind == "abi":
            val = self.abi_set(d["t"], val)
        c = self.cell(vid)
        c.v = val
        c.written = True

    def load_var(self, vid):
        c = self.cell(vid)
        if not c.written:
            self.uninit.append(vid)
        return c.v

    @staticmethod
    def abi_set(t, val):
        """value stored by <abi type>.set(expr)"""
        if t == "uint64":
            return P.u64(val)
        if t in ("uint8", "uint16", "uint32", "byte"):
            bits = 8 if t == "byte" else int(t[4:])
            if P.u64(val) >= 2**bits:
                raise Panic("assert failed: abi uint range")
            return val
        if t == "bool":
            return int(P.u64(val) != 0)
        if t == "string":
            b = P.byt(val)
            if len(b) + 2 > 4096:
                raise Panic("byte string too long")
            if len(b) >= 65536:
                raise Panic("too long")
            return b
        raise ValueError(t)

    def effect(self, *e):
        self.trace.append(tuple(e))

    # ------------------------------------------------------------------ expressions
    def ev(self, e):
        self.tick()
        op = e[0]
        m = getattr(self, "e_" + op, None)
        if m is None:
            raise ValueError("unknown expr %r" % (op,))
        return m(e)

    def e_int(self, e):
        return e[1]

    def e_bytes(self, e):
        return bytes.fromhex(e[1])

    def e_bin(self, e):
        a = self.ev(e[2]); b = self.ev(e[3])
        return BIN[e[1]](a, b)

    def e_beq(self, e):
        a = self.ev(e[1]); b = self.ev(e[2])
        return P.eq(P.byt(a), P.byt(b))

    def e_bneq(self, e):
        a = self.ev(e[1]); b = self.ev(e[2])
        return 1 - P.eq(P.byt(a), P.byt(b))

    def e_bcmp(self, e):
        a = self.ev(e[2]); b = self.ev(e[3])
        return int(BCMP[e[1]](P._bi(a), P._bi(b)))

    def e_bbin(self, e):
        a = self.ev(e[2]); b = self.ev(e[3])
        return BBIN[e[1]](a, b)

    def e_not(self, e):
        return int(P.u64(self.ev(e[1])) == 0)

    def e_bitnot(self, e):
        return P.u64(self.ev(e[1])) ^ (U64 - 1)

    def e_len(self, e):
        return len(P.byt(self.ev(e[1])))

    def e_btoi(self, e):
        return P.btoi(self.ev(e[1]))

    def e_itob(self, e):
        return P.itob(self.ev(e[1]))

    def e_sqrt(self, e):
        return P.isqrt(self.ev(e[1]))

    def e_bitlen(self, e):
        return P.bitlen(self.ev(e[1]))

    def e_bnot(self, e):
        return P.bnot(self.ev(e[1]))

    def e_bsqrt(self, e):
        return P.bsqrt(self.ev(e[1]))

    def e_sha256(self, e):
        return P.sha256(self.ev(e[1]))

    def e_bzero(self, e):
        return P.bzero(self.ev(e[1]))

    def e_nary(self, e):
        vals = [self.ev(x) for x in e[2]]
        op = e[1]
        if op == "concat":
            acc = P.byt(vals[0])
            for v in vals[1:]:
                acc = P.concat(acc, v)
            return acc
        f = {"add": P.add, "mul": P.mul, "and": BIN["&&"], "or": BIN["||"]}[op]
        acc = vals[0]
        if len(vals) == 1:
            return acc
        # PyTeal emits: a b op c op ...  (all operands pushed in order, op after each from the second)
        # evaluation of operands is left to right; intermediate failures happen as the ops run:
        # for add/mul an overflow of a partial result fails even if later operands would fail differently,
        # but since operands have already been evaluated only in a b op c op order, effects of c happen
        # after a op b.  Model precisely: the compiled order is a, b, op, c, op ...
        return self._nary_precise(e)

    def _nary_precise(self, e):
        raise AssertionError  # replaced below

    def e_getbit(self, e):
        a = self.ev(e[1]); i = self.ev(e[2])
        return P.getbit(a, i)

    def e_getbyte(self, e):
        a = self.ev(e[1]); i = self.ev(e[2])
        return P.getbyte(a, i)

    def e_setbit(self, e):
        a = self.ev(e[1]); i = self.ev(e[2]); v = self.ev(e[3])
        return P.setbit(a, i, v)

    def e_setbyte(self, e):
        a = self.ev(e[1]); i = self.ev(e[2]); v = self.ev(e[3])
        return P.setbyte(a, i, v)

    def e_extractu(self, e):
        b = self.ev(e[2]); i = self.ev(e[3])
        return P.extract_uint(b, i, e[1] // 8)

    def e_substr(self, e):
        b = self.ev(e[1]); s = self.ev(e[2]); t = self.ev(e[3])
        return P.substring(b, s, t)

    def e_extract(self, e):
        b = self.ev(e[1]); s = self.ev(e[2]); l = self.ev(e[3])
        return P.extract3(b, s, l)

    def e_suffix(self, e):
        b = self.ev(e[1]); s = self.ev(e[2])
        P.byt(b); P.u64(s)
        if s > len(b):
            raise Panic("suffix start beyond length")
        return b[s:]

    def e_load(self, e):
        return self.load_var(e[1])

    def e_dload(self, e):
        return self.load_var(self.dyn[e[1]])

    def e_param(self, e):
        return self.frames[-1]["params"][e[1]]

    def e_pload(self, e):
        c = self.frames[-1]["params"][e[1]]
        return c.v

    def e_pget(self, e):
        return self.frames[-1]["params"][e[1]]

    def e_pragma(self, e):
        return self.ev(e[1])

    def e_ifx(self, e):
        c = P.u64(self.ev(e[1]))
        self.covmark(e, bool(c))
        return self.ev(e[2]) if c else self.ev(e[3])

    def e_condx(self, e):
        for i, (c, v) in enumerate(e[1]):
            if P.u64(self.ev(c)):
                self.covmark(e, i)
                return self.ev(v)
        self.covmark(e, "none")
        raise Panic("err opcode executed (cond without match)")

    def e_seqx(self, e):
        for s in e[1]:
            self.st(s)
        return self.ev(e[2])

    def e_call(self, e):
        return self.call(e[1], e[2])

    def e_txn(self, e):
        return txn_field(self.ctx, self.txn, e[1])

    def e_txna(self, e):
        return txn_field(self.ctx, self.txn, e[1], e[2])

    def e_txnas(self, e):
        i = P.u64(self.ev(e[2]))
        return txn_field(self.ctx, self.txn, e[1], i)

    def e_gtxn(self, e):
        return gtxn(self.ctx, e[1], e[2])

    def e_gtxna(self, e):
        return gtxn(self.ctx, e[1], e[2], e[3])

    def e_global(self, e):
        return global_field(self.ctx, e[1])

    def e_arg(self, e):
        if e[1] >= len(self.ctx.args):
            raise Panic("cannot load arg")
        return self.ctx.args[e[1]]

    def e_gget(self, e):
        k = P.byt(self.ev(e[1]))
        return self.ctx.app_global.get(k, 0)

    def e_gex(self, e):
        # Seq(mv := App.globalGetEx(Int(0), key), If(mv.hasValue(), mv.value(), default))
        k = P.byt(self.ev(e[1]))
        if k in self.ctx.app_global:
            self.covmark(e, True)
            return self.ctx.app_global[k]
        self.covmark(e, False)
        return self.ev(e[2])

    def e_lget(self, e):
        a = self.ev(e[1]); k = P.byt(self.ev(e[2]))
        acct = self.resolve_acct(a)
        return self.ctx.app_local.get((acct, k), 0)

    def resolve_acct(self, a):
        if isinstance(a, int):
            return txn_field(self.ctx, self.txn, "Accounts", a)
        if len(a) != 32:
            raise Panic("invalid account address")
        return a

    # ------------------------------------------------------------------ statements
    def st(self, s):
        self.tick()
        op = s[0]
        m = getattr(self, "s_" + op, None)
        if m is None:
            raise ValueError("unknown stmt %r" % (op,))
        return m(s)

    def s_store(self, s):
        self.store_var(s[1], self.ev(s[2]))

    def s_dset(self, s):
        self.dyn[s[1]] = s[2]

    def s_dstore(self, s):
        self.store_var(self.dyn[s[1]], self.ev(s[2]))

    def s_pstore(self, s):
        c = self.frames[-1]["params"][s[1]]
        c.v = self.ev(s[2])
        c.written = True

    def s_log(self, s):
        b = P.byt(self.ev(s[1]))
        if len(self.logs) >= 32:
            raise ResourceLimit("logs")
        self.logs.append(b)
        self.effect("log", b)

    def s_gput(self, s):
        k = P.byt(self.ev(s[1])); v = self.ev(s[2])
        self.ctx.app_global[k] = v
        self.effect("gput", k, v)

    def s_gdel(self, s):
        k = P.byt(self.ev(s[1]))
        self.ctx.app_global.pop(k, None)
        self.effect("gdel", k)

    def s_lput(self, s):
        a = self.ev(s[1]); k = P.byt(self.ev(s[2])); v = self.ev(s[3])
        acct = self.resolve_acct(a)
        self.ctx.app_local[(acct, k)] = v
        self.effect("lput", acct, k, v)

    def s_ldel(self, s):
        a = self.ev(s[1]); k = P.byt(self.ev(s[2]))
        acct = self.resolve_acct(a)
        self.ctx.app_local.pop((acct, k), None)
        self.effect("ldel", acct, k)

    def s_pop(self, s):
        self.ev(s[1])

    def s_assert(self, s):
        for c in s[1]:
            if P.u64(self.ev(c)) == 0:
                self.covmark(s, False)
                raise Panic("assert failed")
        self.covmark(s, True)

    def s_seq(self, s):
        for x in s[1]:
            self.st(x)

    def s_nop(self, s):
        pass

    def s_if(self, s):
        c = P.u64(self.ev(s[1]))
        self.covmark(s, bool(c))
        if c:
            self.st(s[2])
        elif s[3] is not None:
            self.st(s[3])

    def s_ifchain(self, s):
        for i, (c, body) in enumerate(s[1]):
            if P.u64(self.ev(c)):
                self.covmark(s, i)
                self.st(body)
                return
        self.covmark(s, "else")
        if s[2] is not None:
            self.st(s[2])

    def s_cond(self, s):
        for i, (c, body) in enumerate(s[1]):
            if P.u64(self.ev(c)):
                self.covmark(s, i)
                self.st(body)
                return
        self.covmark(s, "none")
        raise Panic("err opcode executed (cond without match)")

    def s_while(self, s):
        n = 0
        while True:
            self.tick()
            if not P.u64(self.ev(s[1])):
                break
            n += 1
            try:
                self.st(s[2])
            except _Break:
                break
            except _Continue:
                continue
        self.covmark(s, min(n, 2))

    def s_for(self, s):
        self.st(s[1])
        n = 0
        while True:
            self.tick()
            if not P.u64(self.ev(s[2])):
                break
            n += 1
            try:
                self.st(s[4])
            except _Break:
                break
            except _Continue:
                pass
            self.st(s[3])
        self.covmark(s, min(n, 2))

    def s_break(self, s):
        raise _Break()

    def s_continue(self, s):
        raise _Continue()

    def s_return(self, s):
        v = self.ev(s[1]) if s[1] is not None else None
        if self.frames:
            raise _Return(v)
        raise _Exit(P.u64(v))

    def s_approve(self, s):
        raise _Exit(1)

    def s_reject(self, s):
        raise _Exit(0)

    def s_err(self, s):
        raise Panic("err opcode executed")

    def s_callstmt(self, s):
        self.call(s[1], s[2])

    def s_abicall(self, s):
        v = self.call(s[1], s[2])
        self.store_var(s[3], v)

    def s_itxn(self, s):
        # Execute(fields) = Seq(Begin, SetFields, Submit): field expressions run while the inner transaction is open,
        # and the AVM refuses a second itxn_begin before itxn_submit
        if getattr(self, "itxn_open", False):
            raise Panic("itxn_begin without itxn_submit")
        self.itxn_open = True
        d = {}
        for f, e in s[1]:
            d[f] = self.ev(e)
        self.itxn_open = False
        self.itxn_count += 1
        if self.itxn_count > 16:
            raise ResourceLimit("itxn")
        self.effect("itxn", repr([d]))

    def s_comment(self, s):
        if s[2] is not None:
            self.st(s[2])

    # ------------------------------------------------------------------ calls
    def call(self, k, args):
        sub = self.r["subs"][k]
        vals = []
        for p, a in zip(sub["params"], args):
            if a[0] == "refparam":
                vals.append(self.frames[-1]["params"][a[1]])  # the caller forwards its own by-reference parameter (a Cell)
            elif p["k"] == "ref":
                vals.append(self.cell(a[1]))  # ["ref", vid]
            elif p["k"] == "abi":
                vals.append(self.load_var(a[1]))  # ["abi", vid] passed by value
            else:
                vals.append(self.ev(a))
        if len(self.frames) >= self.max_depth:
            raise ResourceLimit("depth")
        if self.frames:
            active = [f["sub"] for f in self.frames]
            if k in active:
                caller = self.r["subs"][active[-1]]
                self.recursion_events.add(("self" if active[-1] == k else "mutual", caller["ret"], sub["ret"], len(caller["params"]),
                                           len(sub["params"]), len(caller.get("locals", []))))
        defs = {l["id"]: l for l in sub.get("locals", [])}
        frame = {"params": vals, "locals": {l["id"]: Cell(0) for l in sub.get("locals", [])}, "defs": defs, "sub": k}
        ret = sub["ret"]
        if ret.startswith("abi:"):
            frame["locals"]["output"] = Cell(0)
            frame["locals"]["output"].written = True
            defs["output"] = {"id": "output", "kind": "abi", "t": ret[4:]}
            if ret[4:] == "string":
                frame["locals"]["output"].v = b""
        self.frames.append(frame)
        self.maxdepth_seen = max(self.maxdepth_seen, len(self.frames))
        try:
            try:
                for s in sub["body"]:
                    self.st(s)
                v = self.ev(sub["retexpr"]) if sub.get("retexpr") is not None else None
            except _Return as r:
                v = r.value
        finally:
            self.frames.pop()
        if ret.startswith("abi:"):
            return frame["locals"]["output"].v
        if ret == "n":
            return None
        return v

    # ------------------------------------------------------------------ program
    def run(self):
        try:
            try:
                for s in self.r["main"]:
                    self.st(s)
                v = P.u64(self.ev(self.r["final"]))
            except _Exit as x:
                v = x.value
            status = "approve" if v != 0 else "reject"
            slots = {}
            for d in self.r.get("vars", []):
                if d.get("slot") is not None and d.get("kind", "sv") == "sv" and self.globals[d["id"]].written:
                    slots[d["slot"]] = self.globals[d["id"]].v
            return Outcome(status, v, "", self.trace, self.logs, slots, self.cov, self.steps, self.maxdepth_seen, self.uninit,
                           self.recursion_events)
        except Panic as p:
            return Outcome("fail", None, str(p), self.trace, self.logs, {}, self.cov, self.steps, self.maxdepth_seen, self.uninit,
                           self.recursion_events)


def _nary_precise(self, e):
    """a, b, op, c, op, ... : operand k is evaluated after the partial result over 0..k-1 was computed."""
    op = e[1]
    f = {"add": P.add, "mul": P.mul, "and": BIN["&&"], "or": BIN["||"], "concat": P.concat}[op]
    acc = self.ev(e[2][0])
    first = True
    for x in e[2][1:]:
        v = self.ev(x)
        acc = f(acc, v)
    return acc


def _e_nary(self, e):
    return _nary_precise(self, e)


Evaluator.e_nary = _e_nary


def evaluate(recipe, ctx, max_steps=60000):
    """Evaluate a recipe on a context (ctx is mutated: global/local state)."""
    return Evaluator(recipe, ctx, max_steps).run()


def nontrivial(cov_sets):
    """A case is non-trivial when some conditional was taken both ways across its contexts, or a loop iterated >= 2 times."""
    for outcomes in cov_sets.values():
        if len(outcomes) >= 2 or 2 in outcomes:
            return True
    return False
