"""Shared machinery for recipe-based checks (C01, C02, C03, C05, C17, C18, C20): compile a recipe with the real
compiler, execute the emitted TEAL on the reference AVM, evaluate the recipe directly, compare outcomes.

Worker-side (imports pyteal through build.py).
"""
import copy
import traceback

from . import avm, refeval
from . import tealgrammar as G
from .common import PT_ERRORS, reset_globals

EFFECT_KINDS = {"log", "gput", "gdel", "lput", "ldel", "itxn", "box_create", "box_put", "box_replace", "box_del"}


class Compiled:
    __slots__ = ("teal", "prog", "err", "errtype", "tb", "pt_error")

    def __init__(self):
        self.teal = self.prog = self.err = self.errtype = self.tb = None
        self.pt_error = False


def compile_recipe(recipe, version, mode="app", scratch_slots=None, frame_pointers=None, assemble_constants=False, optimize_obj=None, first_version=None):
    """Compile with the real compiler.  Never raises: the outcome (TEAL / PyTeal error / foreign exception) is data."""
    from . import build
    reset_globals()
    c = Compiled()
    try:
        c.teal = build.compile_recipe(recipe, version, mode, scratch_slots, frame_pointers, assemble_constants, optimize_obj, first_version)
    except PT_ERRORS as e:
        c.err, c.errtype, c.pt_error = str(e), type(e).__name__, True
    except RecursionError as e:
        c.err, c.errtype = "RecursionError", "RecursionError"
    except Exception as e:  # foreign exception: C20's subject; recorded, never hidden
        c.err, c.errtype = "%s: %s" % (type(e).__name__, e), type(e).__name__
        c.tb = traceback.format_exc()[-1500:]
    if c.teal is not None:
        try:
            c.prog = G.parse_any(c.teal)
        except G.ParseError as e:
            c.err, c.errtype = "emitted TEAL does not parse: %s" % e, "ParseError"
    return c


def avm_effects(res):
    return [tuple(t) for t in (res.trace or []) if t and t[0] in EFFECT_KINDS]


class AvmOutcome:
    __slots__ = ("status", "ret", "error", "effects", "scratch", "san", "res", "dropped", "callret")

    def __init__(self):
        self.status = self.ret = self.error = self.effects = self.scratch = self.san = self.res = self.dropped = None
        self.callret = None


def run_avm(prog, ctx_desc, routine_info=None, max_steps=200000, trace_calls=False):
    from . import recipes
    o = AvmOutcome()
    ctx = recipes.make_ctx(ctx_desc)
    try:
        r = avm.run(prog, ctx, max_steps=max_steps, routine_info=routine_info, trace_calls=trace_calls)
    except avm.Unsupported as e:
        o.dropped = "unsupported:" + str(e)[:40]
        return o
    except avm.Timeout:
        o.dropped = "avm_timeout"
        o.status = "timeout"
        return o
    except G.ParseError as e:
        o.dropped = None
        o.status, o.error = "fail", "parse: %s" % e
        o.effects, o.scratch, o.san = [], [0] * 256, [("parse", str(e))]
        return o
    o.res = r
    o.status, o.ret, o.error = r.status, r.ret, r.error
    o.effects = avm_effects(r)
    if trace_calls:
        o.callret = [t for t in (r.trace or []) if t and t[0] in ("call", "ret")]
    o.scratch = r.scratch
    o.san = list(r.san or [])
    return o


def run_ref(recipe, ctx_desc, max_steps=60000):
    """Returns (Outcome|None, dropped_reason|None)."""
    from . import recipes
    ctx = recipes.make_ctx(ctx_desc)
    try:
        return refeval.evaluate(recipe, ctx, max_steps), None
    except refeval.Diverged:
        return None, "diverged"
    except refeval.ResourceLimit as e:
        return None, "resource_limit"
    except RecursionError:
        return None, "ref_recursion"


RESOURCE_ERRS = ("stack overflow", "byte string too long", "too many log calls", "too many ", "interp:")


def compare(ref, got, check_slots=True):
    """Mismatch descriptions between the reference outcome and the AVM outcome ([] = agree)."""
    out = []
    if ref.status != got.status:
        out.append("verdict: expected %s (%s) observed %s (%s)" % (ref.status, ref.error or ref.ret, got.status, got.error or got.ret))
        return out
    if ref.status == "fail":
        return out
    if ref.ret != got.ret:
        out.append("return value: expected %r observed %r" % (ref.ret, got.ret))
    re_, ge = [tuple(t) for t in ref.trace], got.effects
    if re_ != ge:
        i = 0
        while i < min(len(re_), len(ge)) and re_[i] == ge[i]:
            i += 1
        out.append("effect trace differs at #%d: expected %r observed %r (lengths %d/%d)"
                   % (i, re_[i] if i < len(re_) else None, ge[i] if i < len(ge) else None, len(re_), len(ge)))
    if check_slots:
        for s, v in ref.slots.items():
            if got.scratch[s] != v:
                out.append("user slot %d: expected %r observed %r" % (s, v, got.scratch[s]))
    return out


def is_resource(got):
    e = got.error or ""
    return got.status == "fail" and any(x in e for x in RESOURCE_ERRS)


def routine_info_for(recipe):
    """label -> (nargs, nrets) for routines whose label we can predict (subroutine names are s<k>; labels are
    <name>_<id>); used by the call-boundary sanitizer."""
    table = {}
    for s in recipe.get("subs", []):
        na = len(s["params"])
        nr = 0 if s["ret"] == "n" else 1
        table[s.get("label") or s["name"]] = (na, nr)

    def info(label):
        stem = label.rsplit("_", 1)[0]
        return table.get(stem)
    return info
