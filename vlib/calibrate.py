"""Calibration gates for the trusted base (run by setup.sh; importable by checks).

Gate 1: reference AVM vs the 92 golden ABI round-trip programs under tests/integration/teal/roundtrip
        (upstream ran them on algod): out == 0x151f7c75 ++ encode((x, complement(x), x)) on random x.
Gate 2: grammar + langspec + CFG/abstract-run on every golden .teal file of the repository: must parse,
        be legal at its pragma version, and have consistent heights (template placeholders and annotated
        listings excepted, backward jumps below v4 excepted - see DESIGN.md C04 finding b).
Neither gate imports pyteal.
"""
import glob
import os
import random
import re
import sys

from . import avm, cfg
from . import tealgrammar as G


def repo():
    return os.environ.get("VERIF_REPO", "/repo")


def _rand_val(t, rng, dl):
    from algosdk import abi
    if isinstance(t, abi.UintType):
        return rng.choice([0, 1, 2**t.bit_size - 1, rng.randrange(2**t.bit_size)])
    if isinstance(t, abi.ByteType):
        return rng.randrange(256)
    if isinstance(t, abi.BoolType):
        return rng.random() < .5
    if isinstance(t, abi.AddressType):
        return bytes(rng.randrange(256) for _ in range(32))
    if isinstance(t, abi.StringType):
        return "".join(rng.choice("abcXYZ 09") for _ in range(dl[0]))
    if isinstance(t, abi.ArrayStaticType):
        return [_rand_val(t.child_type, rng, dl) for _ in range(t.static_length)]
    if isinstance(t, abi.ArrayDynamicType):
        n = dl[0]
        dl[0] = 3
        return [_rand_val(t.child_type, rng, dl) for _ in range(n)]
    if isinstance(t, abi.TupleType):
        return [_rand_val(c, rng, dl) for c in t.child_types]
    raise Exception(t)


def _comp(t, v):
    from algosdk import abi
    if isinstance(t, abi.UintType):
        return 2**t.bit_size - 1 - v
    if isinstance(t, abi.ByteType):
        return 255 - v
    if isinstance(t, abi.BoolType):
        return not v
    if isinstance(t, abi.AddressType):
        return bytes(255 - x for x in v)
    if isinstance(t, abi.StringType):
        return v[::-1]
    if isinstance(t, (abi.ArrayStaticType, abi.ArrayDynamicType)):
        return [_comp(t.child_type, x) for x in v]
    if isinstance(t, abi.TupleType):
        return [_comp(c, x) for c, x in zip(t.child_types, v)]


def gate_roundtrip(trials=5, seed=1):
    from algosdk import abi
    rng = random.Random(seed)
    d = os.path.join(repo(), "tests/integration/teal/roundtrip/")
    ok = bad = 0
    problems = []
    for f in sorted(glob.glob(d + "*.teal")):
        name = os.path.basename(f)
        m = re.match(r"app_roundtrip_(.*?)(?:_(\d+))?_v(\d+)\.teal", name)
        if not m:
            continue
        ts, dynlen = m.group(1), m.group(2)
        try:
            t = abi.ABIType.from_string(ts)
        except Exception:
            continue
        prog = G.parse(open(f).read())
        for _ in range(trials):
            dl = [int(dynlen) if dynlen else 3]
            v = _rand_val(t, rng, dl)
            enc = t.encode(v)
            r = avm.run(prog, avm.Ctx(group=[{"ApplicationArgs": [enc], "ApplicationID": 77}]))
            exp = abi.TupleType([t, t, t]).encode([v, _comp(t, v), v])
            if r.status == "approve" and r.logs and r.logs[-1] == bytes.fromhex("151f7c75") + exp and not r.san:
                ok += 1
            else:
                bad += 1
                problems.append("%s: status=%s err=%s san=%s" % (name, r.status, r.error, r.san[:1]))
                break
    return ok, bad, problems


def gate_goldens():
    files = sorted(glob.glob(os.path.join(repo(), "**/*.teal"), recursive=True))
    n = 0
    problems = []
    for f in files:
        text = open(f).read()
        if "_annotated" in f or "TMPL_" in text:
            continue
        try:
            p = G.parse(text)
        except G.ParseError as e:
            problems.append("%s: parse %s" % (f, e))
            continue
        mode = "sig" if any(I.op in ("arg", "args") or I.op.startswith("arg_") for I in p.instrs) else "app"
        fs, cnt, _ = cfg.check_legal(text, p.version, mode)
        fs = [x for x in fs if x.kind != "backjump"]
        fa, st = cfg.abstract_run(p)
        n += 1
        if fs:
            problems.append("%s: legality %r" % (f, fs[:2]))
        if fa:
            problems.append("%s: discipline %r" % (f, fa[:2]))
        if st.get("abstract_incomplete") or st.get("abstract_unknown_op") or st.get("abstract_no_fixpoint"):
            problems.append("%s: abstract run incomplete %r" % (f, dict(st)))
    return n, problems


def main():
    ok, bad, pr = gate_roundtrip()
    print("gate roundtrip: %d ok, %d bad" % (ok, bad))
    for p in pr[:10]:
        print("  ", p)
    n, pr2 = gate_goldens()
    print("gate goldens: %d files, %d problems" % (n, len(pr2)))
    for p in pr2[:10]:
        print("  ", p)
    if bad or pr2 or ok < 400 or n < 150:
        print("CALIBRATION FAILED")
        return 1
    print("calibration ok")
    return 0


if __name__ == "__main__":
    sys.exit(main())
