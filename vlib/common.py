"""Helpers shared by the worker-side check code (these import pyteal)."""
import hashlib
import json
import random
import sys
from collections import Counter

import pyteal as pt
from pyteal.ast.subroutine import SubroutineEval

PT_ERRORS = (pt.TealInputError, pt.TealCompileError, pt.TealTypeError, pt.TealInternalError, pt.TealPragmaError)


def reset_globals():
    """Between cases: undo the one process global known to leak across *failing* compilations.
    (C11 is the check that looks at this leak; every other check must not be poisoned by it.)"""
    SubroutineEval._current_proto = None


def h(obj):
    return hashlib.sha256(json.dumps(obj, sort_keys=True, default=repr).encode()).hexdigest()[:16]


def rng_for(seed, *parts):
    return random.Random("%s/%s" % (seed, "/".join(str(p) for p in parts)))


class Acc:
    """Accumulates the result of one shard."""

    def __init__(self):
        self.evaluations = 0
        self.nontrivial = set()
        self.violations = []
        self.counters = Counter()
        self.samples = []
        self.known = Counter()
        self.extra = {}

    def violation(self, kind, case, detail, **more):
        if len(self.violations) < 25:
            v = {"kind": kind, "case": case, "detail": detail}
            v.update(more)
            self.violations.append(v)
        self.counters["violations_total"] += 1

    def sample(self, s, cap=4):
        if len(self.samples) < cap:
            self.samples.append(s)

    def result(self):
        return {"evaluations": self.evaluations, "nontrivial": sorted(self.nontrivial), "violations": self.violations,
                "counters": dict(self.counters), "samples": self.samples, "known": dict(self.known), "extra": self.extra}


def jsonable(x):
    if isinstance(x, (bytes, bytearray)):
        return {"hex": bytes(x).hex()}
    if isinstance(x, dict):
        return {str(k): jsonable(v) for k, v in x.items()}
    if isinstance(x, (list, tuple, set, frozenset)):
        return [jsonable(v) for v in x]
    if isinstance(x, (int, str, float, bool)) or x is None:
        return x
    return repr(x)
