"""C19 - ABI assignability implies identical encoding.

Monitor: (1) type_spec_is_assignable_to evaluated on all ordered pairs of a bounded universe of nested types and on
random deeper pairs, each verdict compared with structural equality of the two types' normalised ARC-4 layouts and
with algosdk encodings of sample values under both type strings; (2) a contract on the real function that checks
*every* evaluation the compiler itself makes (including the recursive ones) while real subroutine calls and inner
method calls are built with an argument of type A where B is expected; (3) those constructions must raise when the
layouts differ.
"""
import itertools

SPEC = {
    "level": "exploration",
    "rule": ("universe U = leaves (bool, byte, uint8/16/32/64, address, string, byte[], byte[32], byte[4], account, asset, "
             "application, txn, pay, axfer, two named tuples) closed once under T[], T[32], T[2], (T), and (A,B) over the value "
             "leaves: all |U|^2 ordered pairs are evaluated (exhaustive over U, split across shards); plus random pairs of "
             "depth <= 4 built by mutating one type into a near-miss (swap byte/uint8, address/byte[32], string/byte[], "
             "change a length, reorder, rename fields); plus real Subroutine / InnerTxnBuilder.MethodCall constructions. "
             "A pair is non-trivial when the two types are not identical objects/strings and at least one is composite; "
             "distinct = distinct ordered (str(a), class(a), str(b), class(b))."),
    "assumptions": ["normalised layout (byte->uint8, address->uint8[32], string->uint8[], field names dropped) captures ARC-4 encoding identity",
                    "algosdk.abi encodes sample values per ARC-4"],
    "min_evaluations": {"quick": 60000, "thorough": 300000},
    "must_reach": ["assignable_true", "assignable_false", "contract_evaluations", "call_built", "call_rejected",
                   "inner_call_built", "inner_call_rejected", "encoding_samples_compared", "assign_built", "assign_rejected", "assign_value_preserved",
                   "named_tuple_pairs_same_class_name"],
    "exhaustive": {"quick": True, "thorough": True},
}


def plan(tier, seed):
    n = 16 if tier == "quick" else 48
    return [{"seed": seed, "shard": i, "nshards": n, "tier": tier, "random_pairs": 6000 if tier == "quick" else 40000,
             "calls": 200 if tier == "quick" else 1000} for i in range(n)]


def universe(pt):
    abi = pt.abi

    class NT1(abi.NamedTuple):
        a: abi.Field[abi.Uint64]
        b: abi.Field[abi.Byte]

    class NT2(abi.NamedTuple):
        x: abi.Field[abi.Uint64]
        y: abi.Field[abi.Uint8]

    value_leaves = [abi.BoolTypeSpec(), abi.ByteTypeSpec(), abi.Uint8TypeSpec(), abi.Uint16TypeSpec(), abi.Uint32TypeSpec(),
                    abi.Uint64TypeSpec(), abi.AddressTypeSpec(), abi.StringTypeSpec(), abi.DynamicBytesTypeSpec(),
                    abi.StaticBytesTypeSpec(32), abi.StaticBytesTypeSpec(4)]
    other = [abi.AccountTypeSpec(), abi.AssetTypeSpec(), abi.ApplicationTypeSpec(), abi.TransactionTypeSpec(),
             abi.PaymentTransactionTypeSpec(), abi.AssetTransferTransactionTypeSpec(), NT1().type_spec(), NT2().type_spec()]
    leaf = value_leaves + other
    out = list(leaf)
    for t in leaf:
        out.append(abi.DynamicArrayTypeSpec(t))
        out.append(abi.StaticArrayTypeSpec(t, 32))
        out.append(abi.StaticArrayTypeSpec(t, 2))
        out.append(abi.TupleTypeSpec(t))
    for a, b in itertools.product(value_leaves + other[-2:], repeat=2):
        out.append(abi.TupleTypeSpec(a, b))
    return out


def norm(pt, t):
    """Normalised ARC-4 layout of a PyTeal TypeSpec (our own reading of ARC-4, not PyTeal's relation)."""
    abi = pt.abi
    if isinstance(t, abi.TupleTypeSpec):  # includes NamedTupleTypeSpec
        return "(" + ",".join(norm(pt, x) for x in t.value_type_specs()) + ")"
    if isinstance(t, abi.AddressTypeSpec):
        return "uint8[32]"
    if isinstance(t, abi.StringTypeSpec):
        return "uint8[]"
    if isinstance(t, abi.StaticArrayTypeSpec):
        return norm(pt, t.value_type_spec()) + "[%d]" % t.length_static()
    if isinstance(t, abi.DynamicArrayTypeSpec):
        return norm(pt, t.value_type_spec()) + "[]"
    if isinstance(t, abi.ByteTypeSpec):
        return "uint8"
    if isinstance(t, abi.UintTypeSpec):
        return "uint%d" % t.bit_size()
    if isinstance(t, abi.BoolTypeSpec):
        return "bool"
    if isinstance(t, abi.TransactionTypeSpec):
        return "txn:" + ("*" if type(t) is abi.TransactionTypeSpec else str(t))
    if isinstance(t, (abi.AccountTypeSpec, abi.AssetTypeSpec, abi.ApplicationTypeSpec)):
        return "ref:" + str(t)
    return "?:" + str(t)


def same_layout(pt, a, b):
    import re
    na, nb = norm(pt, a), norm(pt, b)
    if na == nb:
        return True
    # a specific transaction kind may be passed where any transaction is expected (not an encoded value)
    if "txn:" in na and re.sub(r"txn:\w+", "txn:*", na) == nb:
        return True
    return False


def encodable(n):
    return "txn:" not in n and "ref:" not in n and "?:" not in n


def judge_pair(pt, acc, a, b, verdict, origin):
    """Oracle for one evaluation of the relation."""
    from .. import abigen
    from ..common import h
    acc.evaluations += 1
    key = (str(a), type(a).__name__, str(b), type(b).__name__)
    composite = any(ch in str(a) + str(b) for ch in "([")
    if a is not b and key[:2] != key[2:] and composite:
        acc.nontrivial.add(h(key))
    if verdict:
        acc.counters["assignable_true"] += 1
        if not same_layout(pt, a, b):
            acc.violation("assignable_but_different_layout", {"a": key[0], "a_class": key[1], "b": key[2], "b_class": key[3]},
                          "type_spec_is_assignable_to(%s, %s) is True but layouts are %s vs %s (%s)"
                          % (key[0], key[2], norm(pt, a), norm(pt, b), origin))
            return
        na, nb = norm(pt, a), norm(pt, b)
        if encodable(na) and acc.counters["encoding_samples_compared"] < 3000:
            import random
            rng = random.Random(h(key))
            try:
                sa, sb = abigen.sdk(na), abigen.sdk(nb)
                for _ in range(2):
                    v = abigen.rand_val(rng, sa)
                    if sa.encode(v) != sb.encode(v):
                        acc.violation("assignable_but_different_encoding", {"a": key[0], "b": key[2]},
                                      "value %r encodes differently under %s and %s" % (v, na, nb))
                        break
                acc.counters["encoding_samples_compared"] += 1
            except Exception as e:
                acc.counters["encoding_sample_error:" + type(e).__name__] += 1
    else:
        acc.counters["assignable_false"] += 1
        if same_layout(pt, a, b):
            acc.counters["same_layout_not_assignable(not judged)"] += 1


def install_contract(pt, acc):
    """Wrap the real function so that every evaluation the compiler makes is judged."""
    import sys
    import pyteal.ast.abi.util as U
    orig = U.type_spec_is_assignable_to

    def wrapped(a, b):
        r = orig(a, b)
        acc.counters["contract_evaluations"] += 1
        try:
            judge_pair(pt, acc, a, b, r, "contract on the compiler's own call")
        except Exception as e:  # the monitor must never change behaviour
            acc.counters["contract_monitor_error:" + type(e).__name__] += 1
        return r
    n = 0
    for m in list(sys.modules.values()):
        d = getattr(m, "__dict__", None)
        if not d or not getattr(m, "__name__", "").startswith("pyteal"):
            continue
        for k, v in list(d.items()):
            if v is orig:
                d[k] = wrapped
                n += 1
    acc.counters["contract_bindings_rebound"] = n
    return orig


def mutate(pt, rng, tstr):
    """A near-miss of a type string."""
    import re
    subs = [("byte", "uint8"), ("uint8", "byte"), ("address", "byte[32]"), ("byte[32]", "address"), ("string", "byte[]"),
            ("byte[]", "string"), ("uint64", "uint32"), ("uint16", "uint8"), ("bool", "uint8"), ("[2]", "[3]"), ("[]", "[1]"),
            ("[32]", "[]"), ("uint32", "uint64"), ("address", "uint8[32]"), ("string", "uint8[]"), ("address", "byte[31]")]
    rng.shuffle(subs)
    for old, new in subs:
        if old in tstr:
            idxs = [m.start() for m in re.finditer(re.escape(old), tstr)]
            i = rng.choice(idxs)
            return tstr[:i] + new + tstr[i + len(old):]
    return "(" + tstr + ")"


def spec_from_str(pt, s):
    from .. import abigen
    return pt.abi.type_spec_from_algosdk(abigen.sdk(s))


def try_call(pt, acc, rng, a, b):
    """Pass a value of type a where b is expected: real Subroutine call and inner MethodCall."""
    from ..common import PT_ERRORS, reset_globals
    reset_globals()
    abi = pt.abi
    ok_layout = same_layout(pt, a, b)
    case = {"a": str(a), "b": str(b)}
    # --- subroutine call
    try:
        ann = b.annotation_type()
        inst = a.new_instance()
    except Exception:
        acc.counters["call_unbuildable"] += 1
        return

    def f(x):
        return pt.Pop(pt.Int(1))
    f.__annotations__ = {"x": ann}
    try:
        sub = pt.Subroutine(pt.TealType.none)(f)
        if rng.random() < .5:
            # the same subroutine object is first called with a value of exactly the expected type: what that call leaves behind
            # (caches keyed by argument position or Python class) must not widen the check for the next call
            try:
                sub(b.new_instance())
                acc.counters["call_after_valid_call"] += 1
            except Exception:
                pass
        sub(inst)
        acc.counters["call_built"] += 1
        if not ok_layout:
            acc.violation("call_accepts_different_layout", case, "Subroutine(x: %s) accepted an argument of type %s (layouts %s vs %s)"
                          % (b, a, norm(pt, b), norm(pt, a)))
    except PT_ERRORS:
        acc.counters["call_rejected"] += 1
    except Exception as e:
        acc.counters["call_other_exception:" + type(e).__name__] += 1
    # --- inner method call
    if isinstance(b, abi.NamedTupleTypeSpec) or "txn" in norm(pt, b) + norm(pt, a):
        return
    try:
        sig = "m(%s)void" % str(b)
        inst = a.new_instance()
        pt.InnerTxnBuilder.MethodCall(app_id=pt.Int(1), method_signature=sig, args=[inst])
        acc.counters["inner_call_built"] += 1
        if not ok_layout:
            acc.violation("inner_call_accepts_different_layout", case, "MethodCall(%s) accepted an argument of type %s" % (sig, a))
    except PT_ERRORS:
        acc.counters["inner_call_rejected"] += 1
    except Exception as e:
        acc.counters["inner_call_other_exception:" + type(e).__name__] += 1


def _flat(v):
    """A decoded / generated ABI value with the spelling differences removed (str -> utf-8 bytes -> ints, bytes -> ints,
    base32 address -> 32 ints, tuples -> lists, bool stays bool)."""
    from algosdk import encoding
    if isinstance(v, bool):
        return v
    if isinstance(v, int):
        return v
    if isinstance(v, str):
        if len(v) == 58:
            try:
                return list(encoding.decode_address(v))
            except Exception:
                pass
        return list(v.encode("utf-8"))
    if isinstance(v, (bytes, bytearray)):
        return list(v)
    if isinstance(v, (list, tuple)):
        return [_flat(x) for x in v]
    return v


def try_assign(pt, acc, rng, a, b, how=None):
    """Assign a value of type a to an instance of type b through the assignment entry points (set(ABI value), set(ComputedValue),
    ComputedValue.store_into) and *execute* the result: when PyTeal accepts the assignment, the bytes that end up in the target must
    decode under b to the value that was encoded under a.  (No knowledge of which paths convert and which copy raw bytes is used.)"""
    from .. import abigen, avm
    from ..common import PT_ERRORS, reset_globals
    reset_globals()
    abi = pt.abi
    na, nb = norm(pt, a), norm(pt, b)
    if not (encodable(na) and encodable(nb)):
        return
    try:
        sa, sb = abigen.sdk(str(a)), abigen.sdk(str(b))
        ann_a = a.annotation_type()
    except Exception:
        acc.counters["assign_unbuildable"] += 1
        return
    how = how or rng.choice(["set", "computed_set", "store_into", "array_element", "tuple_element"])
    if how == "set" and isinstance(b, abi.TupleTypeSpec):
        how = "store_into"  # Tuple.set(*values) takes the elements, not a tuple
    v = abigen.rand_val(rng, sa)
    container = None
    if how == "array_element":
        container, cval = abi.DynamicArrayTypeSpec(a), [abigen.rand_val(rng, sa), v]
    elif how == "tuple_element":
        container, cval = abi.TupleTypeSpec(abi.Uint8TypeSpec(), a), [7, v]
    try:
        enc = sa.encode(v) if container is None else abigen.sdk(str(container)).encode(cval)
    except Exception:
        acc.counters["assign_unbuildable"] += 1
        return
    if len(enc) > 1500:
        return
    case = {"a": str(a), "b": str(b), "how": how, "a_class": type(a).__name__, "b_class": type(b).__name__}
    try:
        src, dst = (a if container is None else container).new_instance(), b.new_instance()
        if how == "set":
            assign = dst.set(src)
        elif container is not None:
            # an element of an array / a member of a tuple stored into an instance of type b
            assign = src[1].store_into(dst)
        else:
            def mk(*, output):
                return output.decode(pt.Txn.application_args[0])
            mk.__annotations__ = {"output": ann_a}
            fn = pt.ABIReturnSubroutine(mk)
            assign = dst.set(fn()) if how == "computed_set" else fn().store_into(dst)
        prog = pt.Seq(src.decode(pt.Txn.application_args[0]), assign, pt.Log(dst.encode()), pt.Int(1))
        teal = pt.compileTeal(prog, pt.Mode.Application, version=rng.choice([6, 8, 10]))
    except PT_ERRORS:
        acc.counters["assign_rejected"] += 1
        if same_layout(pt, a, b):
            acc.counters["assign_rejected_same_layout(not judged)"] += 1
        return
    except Exception as e:
        acc.counters["assign_other_exception:" + type(e).__name__] += 1
        return
    acc.counters["assign_built"] += 1
    acc.counters["assign_built_" + how] += 1
    try:
        r = avm.run(avm.parse_any(teal), avm.Ctx(group=[{"ApplicationArgs": [enc]}]))
    except (avm.Unsupported, avm.Timeout):
        return
    if r.status != "approve" or len(r.logs) != 1:
        # a conversion that cannot represent the value may fail at run time (uint64 -> uint8); silently wrong bytes are the subject here
        acc.counters["assign_fails_at_runtime"] += 1
        if same_layout(pt, a, b):
            acc.violation("assignment_same_layout_fails", case, "assignment between identically laid out types fails at run time: %s" % r.error, teal=teal[-1500:])
        return
    out = r.logs[0]
    # expected: the same value encoded under b's normalised layout (uint8 for byte, uint8[32] for address, uint8[] for string),
    # so that spelling differences and value-preserving conversions (uint8 -> uint64) are all accepted
    try:
        expected = abigen.sdk(nb).encode(_flat(v))
    except Exception as e:
        acc.violation("assignment_changes_value", case, "%s value %r was assigned to %s (%s) and the program approves, but %s cannot represent that value (%s)"
                      % (a, v, b, how, b, str(e)[:80]), teal=teal[-1500:])
        return
    if out != expected:
        acc.violation("assignment_changes_value", case, "%s value %r assigned to %s (%s): the target holds %s, the value's encoding under %s is %s"
                      % (a, v, b, how, out.hex()[:120], b, expected.hex()[:120]), teal=teal[-1500:])
        return
    acc.counters["assign_value_preserved"] += 1


def named_variants(pt, rng, a, b):
    """NamedTuple classes (all called 'Rec', so they share __name__ and __qualname__) over the fields of two tuple types."""
    abi = pt.abi
    out = []
    for t in (a, b):
        if type(t) is not abi.TupleTypeSpec or not t.value_type_specs():
            return None
        try:
            ann = {"f%d" % i: abi.Field[x.annotation_type()] for i, x in enumerate(t.value_type_specs())}
        except TypeError:
            return None
        out.append(type("Rec", (abi.NamedTuple,), {"__annotations__": ann})().type_spec())
    return out


def run_shard(shard):
    import pyteal as pt
    from .. import abigen
    from ..common import Acc, rng_for
    acc = Acc()
    orig = install_contract(pt, acc)
    if "replay" in shard:
        c = shard["replay"]
        U = universe(pt)
        for a in U:
            for b in U:
                if str(a) == c.get("a") and str(b) == c.get("b") and (not c.get("a_class") or (type(a).__name__ == c["a_class"] and type(b).__name__ == c["b_class"])):
                    judge_pair(pt, acc, a, b, orig(a, b), "replay")
                    try_call(pt, acc, rng_for(0, "r"), a, b)
                    for k in range(12):
                        try_assign(pt, acc, rng_for(k, "r"), a, b)
        try:
            a, b = spec_from_str(pt, c["a"]), spec_from_str(pt, c["b"])
            judge_pair(pt, acc, a, b, orig(a, b), "replay")
            try_call(pt, acc, rng_for(0, "r"), a, b)
        except Exception:
            pass
        return acc.result()
    rng = rng_for(shard["seed"], "c19", shard["shard"])
    U = universe(pt)
    acc.counters["universe_size"] = len(U) if shard["shard"] == 0 else 0
    # exhaustive ordered pairs, split by row
    for i, a in enumerate(U):
        if i % shard["nshards"] != shard["shard"]:
            continue
        for b in U:
            judge_pair(pt, acc, a, b, orig(a, b), "exhaustive pair")
    # random deeper pairs: (t, near-miss of t), (t, t'), both directions
    for _ in range(shard["random_pairs"]):
        ts = abigen.rand_type(rng, maxdepth=rng.choice([2, 3, 4]))
        r = rng.random()
        if r < .6:
            us = mutate(pt, rng, ts)
        elif r < .8:
            us = ts
        else:
            us = abigen.rand_type(rng, maxdepth=2)
        try:
            a, b = spec_from_str(pt, ts), spec_from_str(pt, us)
        except Exception:
            acc.counters["random_pair_unparsable"] += 1
            continue
        judge_pair(pt, acc, a, b, orig(a, b), "random pair")
        judge_pair(pt, acc, b, a, orig(b, a), "random pair")
        if rng.random() < .2:
            nv = named_variants(pt, rng, a, b)
            if nv:
                acc.counters["named_tuple_pairs_same_class_name"] += 1
                judge_pair(pt, acc, nv[0], nv[1], orig(nv[0], nv[1]), "named tuple classes with one name")
                judge_pair(pt, acc, nv[1], nv[0], orig(nv[1], nv[0]), "named tuple classes with one name")
                if rng.random() < .1:
                    try_call(pt, acc, rng, nv[0], nv[1])
        if len(acc.samples) < 3 and ts != us:
            acc.sample({"a": ts, "b": us, "assignable(a,b)": orig(a, b), "layout_a": norm(pt, a), "layout_b": norm(pt, b)})
    # real constructions (these drive the contract)
    # near-miss classes of the universe: types whose layouts differ only in an element width / kind (uint8[] vs uint16[] vs bool[],
    # byte[] in its three spellings, (uint64,byte) vs (uint64,uint8) ...)
    import re
    classes = {}
    for t in U:
        classes.setdefault(re.sub(r"uint\d+|bool", "u", norm(pt, t)), []).append(t)
    near = [v for v in classes.values() if len(v) >= 2]
    # every ordered pair of every near-miss class through every assignment entry point (split across shards)
    pairs = [(x, y) for cls in sorted(near, key=lambda c: str(c[0])) for x in cls for y in cls if x is not y]
    for i, (x, y) in enumerate(pairs):
        if i % shard["nshards"] != shard["shard"]:
            continue
        for how in ("set", "computed_set", "store_into", "array_element", "tuple_element"):
            try_assign(pt, acc, rng, x, y, how=how)
        acc.counters["near_miss_pairs_enumerated"] += 1
    for _ in range(shard["calls"]):
        r0 = rng.random()
        if r0 < .35:
            a, b = rng.sample(rng.choice(near), 2)
            acc.counters["near_miss_constructions"] += 1
        elif r0 < .5:
            a, b = rng.choice(U), rng.choice(U)
        else:
            ts = abigen.rand_type(rng, maxdepth=rng.choice([1, 2, 3]))
            us = mutate(pt, rng, ts) if rng.random() < .7 else ts
            try:
                a, b = spec_from_str(pt, ts), spec_from_str(pt, us)
            except Exception:
                continue
            if rng.random() < .5:
                a, b = b, a
        try_call(pt, acc, rng, a, b)
        try_assign(pt, acc, rng, a, b)
    return acc.result()


MANIFEST_ENTRY = {
    "technique": "runtime contract on type_spec_is_assignable_to + exhaustive pair enumeration over a bounded type universe vs normalised-layout and algosdk-encoding oracle",
    "text": ("Every ordered pair of a 270-type universe (exhaustive), thousands of random deep near-miss pairs, and every evaluation "
             "the compiler itself makes while real subroutine calls and inner method calls are constructed, are judged against "
             "structural equality of normalised ARC-4 layouts and against algosdk encodings of sample values; constructions with "
             "differently shaped types must raise. Exhaustive over the stated universe, exploration beyond it. Assignments are executed too: every ordered near-miss pair of the universe goes through set(value), set(computed value), store_into, array-element and tuple-member store_into, and whatever PyTeal accepts must leave in the target exactly the source value's encoding under the target type."),
    "note": "Trusted: the normalisation (byte=uint8, address=uint8[32], string=uint8[], names dropped) as the definition of 'same ARC-4 encoding'; algosdk.abi.",
}
