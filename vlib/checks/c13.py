"""C13 - literals reach the program byte-for-byte.

Monitor: every literal is compiled into a tiny program; the emitted line is decoded with the Go-assembler
grammar (vlib/tealgrammar.py, both quoting rules) and, where the version allows, the whole program is run
on the reference AVM so that a literal that breaks the line structure of the program is seen as well.
Oracle: Python's own reading of the user's literal (str.encode, bytes, base16/32/64 decoders, address
checksum via SHA-512/256, method selector via SHA-512/256).  Malformed literals must raise at construction.
"""
import base64
import hashlib
import re

from .. import avm
from .. import tealgrammar as G

SPEC = {
    "level": "exploration",
    "rule": ("random literals in six classes: Python str (hostile alphabet: quotes, backslashes, CR/LF/TAB/NUL, 0x7f-0xff, "
             "'//', ';', 'base64(', astral and line-separator code points), bytes/bytearray, base16/base32/base64 "
             "(well-formed incl. unpadded base32 and '0x' prefix; ill-formed: odd length, bad alphabet, bad padding), "
             "addresses (good checksum, bad checksum, bad length/alphabet), method signatures, integers "
             "(0, 2^63, 2^64-1, 2^64, negative, bool, non-int).  A case is non-trivial when the literal contains a "
             "character outside [A-Za-z0-9 ] (str), a byte >= 0x80 or < 0x20 (bytes), or is an ill-formed/boundary "
             "literal; distinct = distinct (class, literal)."),
    "assumptions": ["vlib/tealgrammar.py follows go-algorand's tokenizer and literal decoders (both quoting rules tried)",
                    "Python's codecs and hashlib"],
    "min_evaluations": {"quick": 20000, "thorough": 200000},
    "must_reach": ["str_ok", "bytes_ok", "bytearray_reused_after_construction", "assembled_among_many", "base16_ok", "base32_ok", "base64_ok", "addr_ok", "method_ok", "int_ok",
                   "rejected_malformed"],
}

ALPHA = ['"', "\\", "\n", "\r", "\t", "\x00", "\x7f", "\x80", "\xff", " ", "/", "//", ";", "a", "b", "(", ")", "base64(",
         "b64(", "é", "😀", " ", " ", "\x0b", "\x0c", "\x1b", "\x85", "\\x", "\\n", '"//x"', "'", "`", "\\\\",
         '\\"', "#pragma", ":", "int 0", "0x", "퟿", "\U0010ffff", "\x1c", "\x1d", "\x1e"]


def plan(tier, seed):
    n = 16 if tier == "quick" else 64
    per = 6000 if tier == "quick" else 25000
    return [{"seed": seed, "shard": i, "n": per} for i in range(n)]


def classify(v):
    if v.get("kind") == "addr_bad_checksum_accepted":
        return "C13-addr-checksum"
    return None


def _b32_oracle(s):
    """None if ill-formed, else decoded bytes (Python's reading)."""
    body = s.rstrip("=")
    npad = len(s) - len(body)
    if not re.fullmatch(r"[A-Z2-7]*", body):
        return None
    rem = len(body) % 8
    if rem in (1, 3, 6):
        return None
    want = {0: 0, 2: 6, 4: 4, 5: 3, 7: 1}[rem]
    if npad not in (0, want):
        return None
    return base64.b32decode(body + "=" * want)


def _b64_oracle(s):
    # RFC 4648 section 4: groups of 4 alphabet characters, the last group may be xx== or xxx=
    if len(s) % 4 or not re.fullmatch(r"[A-Za-z0-9+/]*={0,2}", s):
        return None
    try:
        return base64.b64decode(s, validate=True)
    except Exception:
        return None


def _b16_oracle(s):
    if s.startswith("0x"):
        s = s[2:]
    if len(s) % 2 or not re.fullmatch(r"[0-9A-Fa-f]*", s):
        return None
    return bytes.fromhex(s)


def addr_of(pk):
    ck = hashlib.new("sha512_256", pk).digest()[-4:]
    return base64.b32encode(pk + ck).decode().rstrip("=")


def gen_case(rng):
    k = rng.random()
    if k < .42:
        n = rng.randrange(0, 12)
        s = "".join(rng.choice(ALPHA) if rng.random() < .75 else chr(rng.choice([rng.randrange(0x20, 0x7f), rng.randrange(0, 0x300),
                    rng.randrange(0x300, 0xd800), rng.randrange(0xe000, 0x110000)])) for _ in range(n))
        return {"cls": "str", "lit": s}
    if k < .52:
        b = bytes(rng.choice([0, 0x22, 0x5c, 0x0a, 0x0d, 0x7f, 0x80, 0xff, rng.randrange(256)]) for _ in range(rng.randrange(0, 65)))
        return {"cls": "bytes", "lit": b.hex(), "as": rng.choice(["bytes", "bytearray", "bytearray_reused"])}
    if k < .64:
        b = bytes(rng.randrange(256) for _ in range(rng.randrange(0, 12)))
        s = b.hex()
        r = rng.random()
        if r < .3:
            s = s.upper()
        if r > .6:
            s = "0x" + s
        m = rng.random()
        if m < .15:
            s = s + rng.choice("0aF")  # odd length
        elif m < .3:
            s = s + rng.choice(["g0", "  ", "0 ", "\n0", "-1", "0x"])
        elif m < .35:
            s = " " + s
        elif m < .45:
            # prefix spellings other than the one accepted form '0x'
            core = s[2:] if s.startswith("0x") else s
            s = rng.choice(["0X", "0x0x", "0x0X", "x", "X", "0 x", "\\x", "0x "]) + core
        return {"cls": "base16", "lit": s}
    if k < .76:
        b = bytes(rng.randrange(256) for _ in range(rng.randrange(0, 12)))
        s = base64.b32encode(b).decode()
        r = rng.random()
        if r < .45:
            s = s.rstrip("=")
        m = rng.random()
        if m < .12:
            s = s.lower()
        elif m < .22:
            s = s.rstrip("=") + rng.choice(["=", "==", "A", "1", "8", "0"])
        elif m < .3:
            s = s[:-1] if s else "A"
        elif m < .34:
            s = s + " "
        return {"cls": "base32", "lit": s}
    if k < .86:
        b = bytes(rng.randrange(256) for _ in range(rng.randrange(0, 12)))
        s = base64.b64encode(b).decode()
        m = rng.random()
        if m < .1:
            s = s.rstrip("=")
        elif m < .2:
            s = s + rng.choice(["=", "A", "-", "_", " ", "\n"])
        elif m < .26:
            s = base64.urlsafe_b64encode(b).decode()
        elif m < .3:
            s = "=" + s
        return {"cls": "base64", "lit": s}
    if k < .92:
        pk = bytes(rng.randrange(256) for _ in range(32))
        a = addr_of(pk)
        m = rng.random()
        if m < .2:
            i = rng.randrange(52, 58)
            c = rng.choice([x for x in "ABCDEFGHIJKLMNOPQRSTUVWXYZ234567" if x != a[i]])
            a = a[:i] + c + a[i + 1:]
            return {"cls": "addr", "lit": a, "mut": "checksum"}
        if m < .3:
            return {"cls": "addr", "lit": a[:-1], "mut": "length"}
        if m < .38:
            return {"cls": "addr", "lit": a[:10] + rng.choice("018a=") + a[11:], "mut": "alphabet"}
        if m < .42:
            return {"cls": "addr", "lit": a + "A", "mut": "length"}
        if m < .5:
            # base32 padding / whitespace around a well-formed address: not an address literal any more
            return {"cls": "addr", "lit": rng.choice([a + "======", a + "=", a + "========", a + " ", " " + a, a + "\n", a.lower()]), "mut": "padding"}
        return {"cls": "addr", "lit": a, "mut": None}
    if k < .96:
        base = rng.choice(["f()void", "add(uint64,uint64)uint64", "g((uint64,bool),string[])byte[]", "x", "a b", "a\tb", "q//r",
                           "s;t", "u\\", "v'w", "é()void", "m\\\\", "base64(x)", "0x00",
                           "pad(uint64)void ", "tab()void\t", " lead()void", "  two(uint8)void  "])
        m = rng.random()
        if m < .12:
            base = base + rng.choice(['"', '"x', "\n", "\r", "\nerr", '" // c'])
        elif m < .16:
            base = ""
        return {"cls": "method", "lit": base}
    v = rng.choice([0, 1, 2**63, 2**64 - 1, 2**64, 2**64 + 1, -1, -2**63, 2**32, 255, 256, 7, 8, 10, 0o17, 2**64 - 2,
                    rng.randrange(2**64), rng.randrange(2**16)])
    t = rng.random()
    if t < .06:
        return {"cls": "int", "lit": str(v), "py": "float"}
    if t < .1:
        return {"cls": "int", "lit": "1", "py": rng.choice(["bool", "bool_false", "intenum"])}
    if t < .13:
        return {"cls": "int", "lit": str(v), "py": "str"}
    return {"cls": "int", "lit": str(v), "py": "int"}


def literal_line(teal, opname):
    """Return the argument tokens of the single `opname` line, decoded under each quoting rule that parses."""
    outs = []
    for legacy in (False, True):
        try:
            p = G.parse(teal, legacy=legacy)
        except G.ParseError as e:
            outs.append(("parse_error", str(e)))
            continue
        ops = [I.op for I in p.instrs]
        outs.append(("ok", p))
    return outs


def check_case(pt, acc, c):
    from ..common import PT_ERRORS, h
    cls, lit = c["cls"], c["lit"]
    acc.evaluations += 1
    key = h(c)
    # ---- build the literal expression
    expected = None
    malformed = False
    try:
        if cls == "str":
            expected = lit.encode("utf-8", "surrogatepass") if False else lit.encode("utf-8")
            expr = pt.Bytes(lit)
            nontriv = bool(re.search(r"[^A-Za-z0-9 ]", lit))
        elif cls == "bytes":
            raw = bytes.fromhex(lit)
            expected = raw
            if c["as"] == "bytearray_reused":
                # the caller's buffer is reused for something else after the literal was written (a scratch buffer in a loop):
                # the literal is what the buffer held when Bytes() was called
                buf = bytearray(raw)
                expr = pt.Bytes(buf)
                buf[:] = bytes((x ^ 0x5A) for x in raw) + b"later"
                acc.counters["bytearray_reused_after_construction"] += 1
            else:
                expr = pt.Bytes(raw if c["as"] == "bytes" else bytearray(raw))
            nontriv = any(x >= 0x80 or x < 0x20 for x in raw)
        elif cls == "base16":
            expected = _b16_oracle(lit)
            malformed = expected is None
            nontriv = True
            expr = pt.Bytes("base16", lit)
        elif cls == "base32":
            expected = _b32_oracle(lit)
            malformed = expected is None
            nontriv = True
            expr = pt.Bytes("base32", lit)
        elif cls == "base64":
            expected = _b64_oracle(lit)
            malformed = expected is None
            nontriv = True
            expr = pt.Bytes("base64", lit)
        elif cls == "addr":
            nontriv = True
            try:
                expected = G.decode_address(lit)
            except G.ParseError:
                expected = None
                malformed = True
            expr = pt.Addr(lit)
        elif cls == "method":
            nontriv = True
            malformed = lit == "" or any(ch in lit for ch in '"\n\r')
            expected = None if malformed else hashlib.new("sha512_256", lit.encode()).digest()[:4]
            expr = pt.MethodSignature(lit)
        else:
            nontriv = True
            py = c["py"]
            val = int(lit)
            if py in ("bool", "bool_false", "intenum"):
                # int subclasses: rejected, or else the value they stand for is what gets pushed (True -> 1)
                import enum
                arg = {"bool": True, "bool_false": False, "intenum": enum.IntEnum("E", {"A": 7}).A}[py]
                val = int(arg)
                malformed = True
                expected = val
            else:
                arg = {"int": val, "float": float(val), "str": lit}[py]
                malformed = py != "int" or not (0 <= val < 2**64)
                expected = None if malformed else val
            expr = pt.Int(arg)
    except PT_ERRORS as e:
        if nontriv:
            acc.nontrivial.add(key)
        if malformed:
            acc.counters["rejected_malformed"] += 1
            acc.counters["rejected_" + cls] += 1
        else:
            acc.violation("wellformed_rejected", c, "well-formed %s literal rejected: %s" % (cls, e))
        return
    except Exception as e:
        if malformed:
            acc.counters["rejected_malformed_foreign_exception:" + type(e).__name__] += 1
            return
        if cls == "str" and isinstance(e, UnicodeEncodeError):
            acc.counters["lone_surrogate_str"] += 1
            return
        acc.violation("crash", c, "constructor raised %s: %s" % (type(e).__name__, e))
        return
    if nontriv:
        acc.nontrivial.add(key)
    if malformed:
        if cls == "addr" and c.get("mut") == "checksum":
            acc.violation("addr_bad_checksum_accepted", c, "Addr(%r) accepted although its checksum is wrong" % lit)
        elif cls == "int" and c.get("py") in ("bool", "bool_false", "intenum"):
            acc.counters["int_subclass_accepted"] += 1  # accepted: then it has to push the value it stands for (checked below)
        else:
            acc.violation("malformed_accepted", c, "malformed %s literal %r accepted at construction" % (cls, lit))
            return
        if not (cls == "int" and c.get("py") in ("bool", "bool_false", "intenum")):
            return
    # ---- compile and decode
    version = [6, 5, 7, 8, 9, 10][int(key, 16) % 6]  # (Log needs v5)
    try:
        if cls == "int":
            teal = pt.compileTeal(pt.Seq(pt.Log(pt.Itob(expr)), pt.Int(1)), pt.Mode.Application, version=version)
        else:
            teal = pt.compileTeal(pt.Seq(pt.Log(expr), pt.Int(1)), pt.Mode.Application, version=version)
    except Exception as e:
        acc.violation("compile_error", c, "%s: %s" % (type(e).__name__, e))
        return
    opname = {"str": "byte", "bytes": "byte", "base16": "byte", "base32": "byte", "base64": "byte", "addr": "addr",
              "method": "method", "int": "int"}[cls]
    verdicts = []
    for legacy in (False, True):
        try:
            p = G.parse(teal, legacy=legacy)
        except G.ParseError as e:
            verdicts.append("parse error: %s" % e)
            continue
        ops = [I.op for I in p.instrs]
        want_ops = [opname, "itob", "log", "int", "return"] if cls == "int" else [opname, "log", "int", "return"]
        if ops != want_ops:
            verdicts.append("instruction stream %r instead of %r" % (ops, want_ops))
            continue
        I = p.instrs[0]
        try:
            if opname == "byte":
                got, used = G.parse_bytes_args(I.args)
                if used != len(I.args):
                    raise G.ParseError("extra tokens %r" % (I.args,))
            elif opname == "addr":
                if len(I.args) != 1:
                    raise G.ParseError("addr arity")
                got = G.decode_address(I.args[0])
            elif opname == "method":
                if len(I.args) != 1:
                    raise G.ParseError("method arity %r" % (I.args,))
                got = G.method_selector(I.args[0])
            else:
                if len(I.args) != 1:
                    raise G.ParseError("int arity")
                got = G.parse_int(I.args[0])
        except G.ParseError as e:
            verdicts.append("literal does not decode: %s" % e)
            continue
        if got != expected:
            verdicts.append("decodes to %r, expected %r" % (got, expected))
            continue
        # run it
        r = avm.run(p, avm.Ctx())
        want_log = expected.to_bytes(8, "big") if cls == "int" else expected
        if r.status != "approve" or r.logs != [want_log]:
            if cls != "int" and len(expected) > 1024:
                verdicts.append(None)  # log size limit, not the literal
                continue
            verdicts.append("execution logged %r status=%s err=%s" % (r.logs, r.status, r.error))
            continue
        verdicts.append(None)
    if all(v is not None for v in verdicts):
        acc.violation("literal_mismatch", c, "%s literal %r: %s | emitted: %r" % (cls, lit, verdicts, teal.split("\n")[1:3]))
        return
    # ---- the same literal through assembleConstants (once -> pushbytes/pushint, twice -> constant block): the compiler re-reads
    # its own escaped text there (unescapeStr / decoders), so the value pushed must still be the user's bytes
    if cls == "method":
        # the same text as a Bytes literal in the same program, in both orders: constants are keyed by value and kind, not by text
        for order in (0, 1):
            try:
                pair = [pt.Log(pt.MethodSignature(lit)), pt.Log(pt.Bytes(lit))]
                want2 = [expected, lit.encode()]
                if order:
                    pair.reverse()
                    want2.reverse()
                teal3 = pt.compileTeal(pt.Seq(*pair, *pair, pt.Int(1)), pt.Mode.Application, version=version, assembleConstants=True)
                r3 = avm.run(avm.parse_any(teal3), avm.Ctx())
            except Exception as e:
                acc.violation("assembled_literal_mismatch", c, "method + bytes of the same text under assembleConstants raised %s: %s" % (type(e).__name__, str(e)[:200]))
                return
            acc.counters["assembled_same_text_pairs"] += 1
            if r3.status != "approve" or r3.logs != want2 * 2:
                acc.violation("assembled_literal_mismatch", c, "MethodSignature(%r) and Bytes(%r) in one program under assembleConstants logged %r, expected %r"
                              % (lit, lit, r3.logs[:2], want2))
                return
    if cls == "int" or len(expected) <= 1024:
        for times in (1, 2):
            try:
                body = [pt.Log(pt.Itob(expr) if cls == "int" else expr) for _ in range(times)]
                teal2 = pt.compileTeal(pt.Seq(*body, pt.Int(1)), pt.Mode.Application, version=version, assembleConstants=True)
                r2 = avm.run(avm.parse_any(teal2), avm.Ctx())
            except Exception as e:
                acc.violation("assembled_literal_mismatch", c, "assembleConstants compile/run raised %s: %s" % (type(e).__name__, str(e)[:200]))
                return
            want_log = expected.to_bytes(8, "big") if cls == "int" else expected
            acc.counters["assembled_checked"] += 1
            if r2.status != "approve" or r2.logs != [want_log] * times:
                acc.violation("assembled_literal_mismatch", c, "%s literal %r under assembleConstants logged %r (status %s %s), expected %r | %r"
                              % (cls, lit, r2.logs[:2], r2.status, r2.error, want_log, teal2.split("\n")[1:4]))
                return
    if cls == "int" and int(key, 16) % 4 == 0:
        # the literal among other repeated integer constants (small ones are loaded with pushint, frequent large ones from the
        # block; ranks and block positions differ): every Int(n) in the program still pushes its own n
        import random
        r4 = random.Random(int(key, 16))
        comp = r4.sample([0, 1, 2, 5, 100, 127, 128, 129, 255, 256, 1000, 5000, 6000, 65536, 2**32, 2**63, 2**64 - 1], r4.choice([4, 5, 6, 8]))
        seq = []
        for cv in comp:
            seq += [cv] * r4.choice([2, 2, 3, 4, 5])
        r4.shuffle(seq)
        seq = seq[:27] + [expected] * r4.choice([1, 2, 3])  # (an application call may log at most 32 times)
        r4.shuffle(seq)
        try:
            teal4 = pt.compileTeal(pt.Seq(*[pt.Log(pt.Itob(pt.Int(x))) for x in seq], pt.Int(1)), pt.Mode.Application, version=version, assembleConstants=True)
            r5 = avm.run(avm.parse_any(teal4), avm.Ctx())
        except Exception as e:
            acc.violation("assembled_literal_mismatch", c, "assembleConstants compile/run of %d integer constants raised %s: %s" % (len(seq), type(e).__name__, str(e)[:200]))
            return
        acc.counters["assembled_among_many"] += 1
        if r5.status != "approve" or r5.logs != [x.to_bytes(8, "big") for x in seq]:
            bad = next((i for i, (a, b) in enumerate(zip(r5.logs, seq)) if a != b.to_bytes(8, "big")), len(r5.logs))
            acc.violation("assembled_literal_mismatch", c, "Int constants %r under assembleConstants: constant #%d pushes %r (status %s %s)"
                          % (seq[:12], bad, int.from_bytes(r5.logs[bad], "big") if bad < len(r5.logs) else None, r5.status, r5.error))
            return
    if any(v is not None for v in verdicts):
        acc.counters["quoting_rules_disagree"] += 1
    acc.counters[cls + "_ok"] += 1
    acc.sample({"class": cls, "literal": lit, "emitted_line": teal.split("\n")[1]}, cap=6)


def known_probes(pt, acc):
    """Listed witnesses of known findings, re-run on every check."""
    # C13-addr-checksum: an address string with a wrong checksum is accepted
    try:
        pt.Addr("A" * 58)
        acc.known["C13-addr-checksum"] += 1
    except Exception:
        pass


def run_shard(shard):
    import pyteal as pt
    from ..common import Acc, rng_for, reset_globals
    acc = Acc()
    if "replay" in shard:
        check_case(pt, acc, shard["replay"])
        return acc.result()
    rng = rng_for(shard["seed"], "c13", shard["shard"])
    if shard["shard"] == 0:
        known_probes(pt, acc)
    for it in range(shard["n"]):
        reset_globals()
        check_case(pt, acc, gen_case(rng))
    return acc.result()

MANIFEST_ENTRY = {
    "technique": "runtime monitor: emitted literal lines decoded by an independent Go-assembler grammar and executed on the reference AVM vs Python's own decoding",
    "text": ("Every literal class is pushed through the real constructors and compileTeal with a hostile generator; the emitted "
             "line is tokenised and decoded by an independent implementation of the assembler grammar and the program is "
             "executed, so both wrong bytes and broken line structure are observed. Malformed literals must raise at "
             "construction. Held means held on the literals listed in evidence."),
    "note": "Trusted: vlib/tealgrammar.py as a model of go-algorand's tokenizer/decoders (two quoting rules, a literal is judged wrong only if wrong under both); Python codecs.",
}
