"""C01 - compiled TEAL computes what the PyTeal expression denotes.

Monitor: typed random recipes (and all small control skeletons) are turned into PyTeal objects and compiled by the
real compiler at several versions and both modes; the emitted TEAL is executed on the reference AVM (with its type /
stack / height / frame sanitizers on) for several transaction contexts, and the observed outcome (verdict, return
value, ordered effect trace, user-numbered slots) is compared with the direct evaluation of the recipe (refeval).
"""
from .. import recipes

RECURSION_LIMIT = 6000  # recursive ABI subroutines rely on a RecursionError being caught inside ReturnedValue.store_into

SPEC = {
    "level": "exploration",
    "rule": ("typed random recipes over constants, unary/binary/n-ary/ternary ops, byte ops, substring/extract/suffix, txn/gtxn/"
             "global/arg reads, global/local state, MaybeValue, log, inner transactions, ScratchVar/DynamicScratchVar/ABI scalars, "
             "Seq, If/ElseIf/Else (both syntaxes), Cond, While, For, Break, Continue, Assert, Return/Approve/Reject, subroutine "
             "calls; plus every control skeleton up to N nodes (quick N=4, thorough N=6) with effectful leaves.  Each recipe is "
             "compiled at 2-3 versions in [min version..10] in its mode (Application or Signature) with scratch-slot optimisation "
             "off (C03 judges the optimiser) and run on 4 contexts.  An evaluation is one (recipe, version, context) execution "
             "compared with the reference evaluation; a recipe is non-trivial when some conditional went both ways across its "
             "contexts or a loop iterated >= 2 times; distinct = distinct recipe hashes."),
    "assumptions": ["vlib/prims.py operator semantics (shared by both sides, so an error there cancels out)",
                    "vlib/refeval.py reading of the documented source semantics", "vlib/avm.py control/stack/scratch/frame semantics"],
    "min_evaluations": {"quick": 8000, "thorough": 100000},
    "must_reach": ["agree_approve", "agree_reject", "agree_fail", "mode_sig", "mode_app", "skeleton_cases", "first_statement_cases", "multivalue_ok", "optimised_agree", "optimised_accesses_deleted", "str_literals_assembled", "loops_iterated_2plus", "object_compiled_twice"],
    "shard_timeout": {"quick": 2400, "thorough": 14400},
}


def plan(tier, seed):
    n = 16 if tier == "quick" else 64
    per = 500 if tier == "quick" else 4000
    maxn = 4 if tier == "quick" else 6
    return [{"seed": seed, "shard": i, "nshards": n, "n": per, "tier": tier, "skel_nodes": maxn} for i in range(n)]


def versions_for(rng, recipe, vgen):
    lo = recipes.min_version(recipe)
    if recipe["mode"] == "sig":
        lo = max(lo, 2)
    vs = {max(vgen, lo)}
    cands = list(range(lo, 11))
    vs.add(rng.choice(cands))
    if rng.random() < .5:
        vs.add(rng.choice(cands))
    return sorted(vs)


KNOWN_OPT = "C01-optimizer-unpaired-store"
_PROBE = []


def default_options_run(acc, recipe, v, ctxs, refs, origin, ss, fp=None, known_id=None):
    """The same recipe compiled the way a user who passes no options gets it at v9+ (scratch-slot optimisation on), or with the
    optimisation requested explicitly.  The one known optimiser defect is attributed exactly as in C03/C05: the probe on the
    deletion routine saw more stores than loads deleted AND the mismatch disappears when deletion is restricted to paired accesses."""
    from .. import rcase
    from . import c03
    if not _PROBE:
        _PROBE.append(c03.OptProbe())
    probe = _PROBE[0]
    probe.reset()
    known_id = known_id or KNOWN_OPT
    c = rcase.compile_recipe(recipe, v, recipe["mode"], scratch_slots=ss, frame_pointers=fp)
    unpaired = c03.known_mechanism(probe.events)
    deleted = sum(ns + nl for ns, nl in probe.events)
    if c.prog is None:
        acc.counters["optimised_not_emitted"] += 1
        return
    acc.counters["optimised_compilations"] += 1
    acc.counters["optimised_accesses_deleted"] += deleted
    info = rcase.routine_info_for(recipe)
    bad = []
    for cd, ref in zip(ctxs, refs):
        if ref is None:
            continue
        got = rcase.run_avm(c.prog, cd, routine_info=info, max_steps=100 * ref.steps + 20000)
        if got.dropped or (rcase.is_resource(got) and ref.status != "fail"):
            continue
        acc.evaluations += 1
        diffs = rcase.compare(ref, got)
        if diffs:
            bad.append((cd, diffs))
        else:
            acc.counters["optimised_agree"] += 1
    if not bad:
        return
    mech = None
    if unpaired:
        probe.reset(neutralise=True)
        c2 = rcase.compile_recipe(recipe, v, recipe["mode"], scratch_slots=ss, frame_pointers=fp)
        probe.reset()
        if c2.prog is not None:
            ok = True
            for cd, ref in zip(ctxs, refs):
                if ref is None:
                    continue
                g2 = rcase.run_avm(c2.prog, cd, routine_info=info, max_steps=100 * ref.steps + 20000)
                if not g2.dropped and not (rcase.is_resource(g2) and ref.status != "fail") and rcase.compare(ref, g2):
                    ok = False
            if ok:
                mech = known_id
    cd, diffs = bad[0]
    acc.violation("outcome_mismatch", {"recipe": recipe, "version": v, "ctx": cd, "origin": origin, "scratch_slots": ss, "frame_pointers": fp, "optimizer_unpaired": unpaired, "mechanism": mech},
                  "with scratch-slot optimisation on (scratch_slots=%s frame_pointers=%s at v%d): %s" % (ss, fp, v, "; ".join(diffs)[:800]), teal=c.teal[-3000:])


def classify(v):
    case = v.get("case") or {}
    if case.get("mechanism") == KNOWN_OPT and case.get("optimizer_unpaired"):
        return KNOWN_OPT
    return None


def check_recipe(acc, recipe, versions, ctxs, origin, check_san=True):
    from .. import rcase, refeval
    from ..common import h
    key = h(recipe)
    refs = []
    cov = {}
    for cd in ctxs:
        ref, dropped = rcase.run_ref(recipe, cd)
        if ref is None:
            acc.counters["dropped_" + dropped] += 1
        else:
            for k, v in ref.cov.items():
                cov.setdefault(k, set()).update(v)
            if 2 in set().union(*ref.cov.values()) if ref.cov else False:
                acc.counters["loops_iterated_2plus"] += 1
        refs.append(ref)
    if refeval.nontrivial(cov):
        acc.nontrivial.add(key)
    for vi, v in enumerate(versions):
        # every third compilation reuses one expression object: it is first compiled at another version (which may fail)
        first = None
        if (int(key, 16) + vi) % 3 == 0:
            first = [2, 5, 6, 8, 10][(int(key, 16) >> 8) % 5]
            acc.counters["object_compiled_twice"] += 1
        # every fourth compilation writes printable byte constants as str literals and assembles the constants into blocks
        as_text = (int(key, 16) + vi) % 4 == 1 and v >= 3
        from .. import build as _build
        _build.STR_LITERALS[0] = as_text
        try:
            c = rcase.compile_recipe(recipe, v, recipe["mode"], scratch_slots=False, first_version=first, assemble_constants=as_text)
        finally:
            _build.STR_LITERALS[0] = False
        if as_text:
            acc.counters["str_literals_assembled"] += 1
        if c.prog is None:
            if c.pt_error:
                acc.counters["compile_rejected:" + c.errtype] += 1
            else:
                acc.counters["compile_crashed:" + c.errtype] += 1  # C20's subject
                if c.errtype == "ParseError":
                    acc.violation("unparseable", {"recipe": recipe, "version": v, "origin": origin}, c.err)
            continue
        acc.counters["compiled_v%d" % v] += 1
        if v >= 9 or (int(key, 16) >> 4) % 5 == 0:
            default_options_run(acc, recipe, v, ctxs, refs, origin, None if v >= 9 else True)
        info = rcase.routine_info_for(recipe)
        for cd, ref in zip(ctxs, refs):
            if ref is None:
                continue
            # the reference terminated in ref.steps node evaluations; a compiled program that needs more than 100x that many
            # instructions (plus slack) does not terminate where the source does
            got = rcase.run_avm(c.prog, cd, routine_info=info, max_steps=100 * ref.steps + 20000)
            if got.dropped == "avm_timeout":
                acc.evaluations += 1
                acc.violation("nontermination", {"recipe": recipe, "version": v, "ctx": cd, "origin": origin},
                              "reference evaluation finished (%s) after %d node evaluations; the compiled program was still running "
                              "after %d instructions" % (ref.status, ref.steps, 100 * ref.steps + 20000), teal=c.teal[-3000:])
                continue
            if got.dropped:
                acc.counters["dropped_" + got.dropped.split(":")[0]] += 1
                continue
            if rcase.is_resource(got) and ref.status != "fail":
                acc.counters["dropped_resource_limit"] += 1
                continue
            acc.evaluations += 1
            acc.counters["mode_" + recipe["mode"]] += 1
            case = {"recipe": recipe, "version": v, "ctx": cd, "origin": origin}
            diffs = rcase.compare(ref, got)
            if diffs:
                acc.violation("outcome_mismatch", case, "; ".join(diffs)[:900], teal=c.teal[-3000:])
            else:
                acc.counters["agree_" + ref.status] += 1
                if ref.trace:
                    acc.counters["agree_with_effects"] += 1
            if check_san and got.san and ref.status != "fail":
                acc.violation("sanitizer", case, "AVM sanitizer on an agreeing run: %r" % (got.san[:2],), teal=c.teal[-3000:])
            if ref.status != "fail" and got.status != "fail":
                for f in recipes.features(recipe):
                    if ":" not in f:
                        acc.extra.setdefault("constructs_executed", {}).setdefault(f, 0)
                        acc.extra["constructs_executed"][f] += 1
    if len(acc.samples) < 3 and refs and refs[0] is not None:
        acc.sample({"origin": origin, "mode": recipe["mode"], "versions": versions, "n_nodes": len(recipes.all_nodes(recipe)),
                    "reference_verdict": refs[0].status, "reference_effects": len(refs[0].trace),
                    "main_head": str(recipe["main"][:2])[:300]})


def first_statement_family(rng):
    """Routines whose very first statement is a loop, a conditional or an effect over application state - no initialiser in
    front of it (random recipes always begin with their variable initialisers, so the routine's entry block is never a loop head
    or a branch there)."""
    def B(t):
        return ["bytes", t.encode().hex()]
    K = B("k")
    lim = ["bin", "+", ["bin", "%", ["btoi", ["txna", "ApplicationArgs", 0]], ["int", 4]], ["int", rng.choice([0, 0, 1])]]
    inc = ["gput", K, ["bin", "+", ["gget", K], ["int", 1]]]
    tag = [0]

    def eff():
        tag[0] += 1
        return ["gput", B("e%d" % tag[0]), ["bin", "+", ["gget", K], ["int", 10 * tag[0]]]]
    c2 = ["bin", "%", ["btoi", ["txna", "ApplicationArgs", 1]], ["int", 2]]

    def loop_body():
        r = rng.random()
        if r < .35:
            return ["seq", [eff(), inc]]                       # ends in a straight-line statement
        if r < .55:
            return inc
        if r < .75:
            return ["seq", [inc, ["if", c2, eff(), None]]]     # ends in a conditional
        if r < .9:
            return ["seq", [inc, ["if", c2, ["break"], None], eff()]]
        return ["seq", [inc, ["if", c2, ["continue"], None], eff()]]

    def first():
        r = rng.random()
        if r < .5:
            return ["while", ["bin", "<", ["gget", K], lim], loop_body()]
        if r < .65:
            return ["if", c2, eff(), eff() if rng.random() < .5 else None]
        if r < .75:
            return ["cond", [[c2, eff()], [["int", 1], eff()]]]
        if r < .85:
            return ["assert", [["bin", "<=", ["gget", K], ["int", 3]]]]
        return ["seq", [["while", ["bin", "<", ["gget", K], lim], loop_body()], eff()]]
    stmts = [first()] + [eff() for _ in range(rng.randrange(0, 3))]
    if rng.random() < .5:
        return {"mode": "app", "vars": [], "subs": [], "main": stmts, "final": ["int", 1]}
    ret = rng.choice(["u", "n"])
    sub = {"name": "entry", "params": [], "ret": ret, "locals": [], "body": stmts, "retexpr": ["bin", "+", ["gget", K], ["int", 1]] if ret == "u" else None, "rec": False}
    main = [["callstmt", 0, []]] if ret == "n" else [["gput", B("r"), ["call", 0, []]]]
    if rng.random() < .5:
        main = main + [main[0]]  # called twice: the state left by the first call bounds the second
    return {"mode": "app", "vars": [], "subs": [sub], "main": main, "final": ["int", 1]}


def multivalue_probe(pt, acc, rng):
    """Operators with several results (MultiValue): result i of the opcode must be what output slot i holds.  The expected values
    are computed with Python integers, not by the reference AVM."""
    from .. import avm
    from ..common import PT_ERRORS, reset_globals
    reset_globals()
    M = 2**64
    edge = [0, 1, 2, 3, 7, M - 1, M - 2, 2**63, 2**32, 2**32 + 1, 10**18]

    def val():
        return rng.choice(edge) if rng.random() < .6 else rng.randrange(M)
    op = rng.choice(["mulw", "addw", "expw", "divmodw", "divmodw", "divmodw"])
    if op == "mulw":
        a = [val(), val()]
        exp = [a[0] * a[1] // M, a[0] * a[1] % M]
    elif op == "addw":
        a = [val(), val()]
        exp = [(a[0] + a[1]) // M, (a[0] + a[1]) % M]
    elif op == "expw":
        a = [rng.choice([2, 3, 10, 255, 65536, M - 1]), rng.randrange(1, 9)]
        if a[0] ** a[1] >= M * M:
            a[1] = 1
        exp = [a[0] ** a[1] // M, a[0] ** a[1] % M]
    else:
        a = [val(), val(), rng.choice([0, 0, 1, val()]), val()]
        n, d = a[0] * M + a[1], a[2] * M + a[3]
        if d == 0:
            a[3] = d = 1 + rng.randrange(1000)
        q, r = divmod(n, d)
        exp = [q // M, q % M, r // M, r % M]
    v = rng.choice([4, 5, 6, 7, 8, 9, 10])
    case = {"probe": "multivalue", "op": op, "args": a, "version": v}
    acc.evaluations += 1
    try:
        mv = pt.MultiValue(getattr(pt.Op, op), [pt.TealType.uint64] * len(exp), args=[pt.Int(x) for x in a])
        prog = pt.Seq(mv, *[pt.App.globalPut(pt.Bytes("o%d" % i), sl.load(pt.TealType.uint64)) for i, sl in enumerate(mv.output_slots)], pt.Int(1))
        teal = pt.compileTeal(prog, pt.Mode.Application, version=v, optimize=pt.OptimizeOptions(scratch_slots=rng.choice([False, False, True])))
    except PT_ERRORS as e:
        acc.violation("compile_rejected", case, "%s: %s" % (type(e).__name__, str(e)[:200]))
        return
    res = avm.run(avm.parse_any(teal), avm.Ctx())
    got = [res.state.get(("o%d" % i).encode()) for i in range(len(exp))]
    if res.status != "approve" or got != exp:
        acc.violation("outcome_mismatch", case, "%s%r: output slots hold %r, the opcode's results in order are %r (status %s %s)" % (op, a, got, exp, res.status, res.error), teal=teal)
    else:
        acc.counters["multivalue_ok"] += 1
        acc.counters["multivalue_" + op] += 1


def run_shard(shard):
    from ..common import Acc, rng_for
    acc = Acc()
    if "replay" in shard:
        c = shard["replay"]
        if c.get("probe") == "multivalue":
            import pyteal as pt
            import random
            for k in range(400):
                multivalue_probe(pt, acc, random.Random(k))
            return acc.result()
        check_recipe(acc, c["recipe"], [c["version"]], [c["ctx"]], c.get("origin", "replay"))
        return acc.result()
    rng = rng_for(shard["seed"], "c01", shard["shard"])
    # ---- random recipes
    for it in range(shard["n"]):
        vgen = rng.choice([2, 3, 4, 5, 6, 6, 7, 8, 8, 9, 10])
        mode = "sig" if rng.random() < .2 else "app"
        g = recipes.Gen(rng, version=vgen, mode=mode)
        try:
            recipe = g.program()
        except RecursionError:
            continue
        ctxs = [recipes.gen_ctx_desc(rng, mode, hostile=(i == 3)) for i in range(4)]
        check_recipe(acc, recipe, versions_for(rng, recipe, vgen), ctxs, "random")
        acc.counters["random_recipes"] += 1
    import pyteal as pt
    for it in range(60 if shard["tier"] == "quick" else 600):
        multivalue_probe(pt, acc, rng)
    # ---- routines that begin with a loop / conditional / effect
    for it in range(max(20, shard["n"] // 10)):
        recipe = first_statement_family(rng)
        lo = 4 if recipe["subs"] else 2
        v = rng.choice([x for x in (2, 3, 4, 5, 6, 7, 8, 9, 10) if x >= lo])
        ctxs = []
        for j in range(3):
            d = recipes.gen_ctx_desc(rng, "app")
            d["args"] = [rng.randrange(0, 8).to_bytes(8, "big").hex() for _ in range(4)]
            ctxs.append(d)
        check_recipe(acc, recipe, [v] + ([rng.choice([6, 8, 10])] if rng.random() < .3 else []), ctxs, "first_statement")
        acc.counters["first_statement_cases"] += 1
    # ---- skeleton enumeration (sharded)
    idx = 0
    for n in range(1, shard["skel_nodes"] + 1):
        for sk in recipes.skeletons(n):
            idx += 1
            if idx % shard["nshards"] != shard["shard"]:
                continue
            if n >= 5 and shard["tier"] == "quick":
                continue
            mode = "sig" if idx % 5 == 0 else "app"
            v = [2, 3, 4, 5, 6, 7, 8, 9, 10][idx % 9]
            recipe = recipes.instantiate(sk, mode=mode, version=v)
            # contexts: drive condition bits and the loop bound
            ctxs = []
            for j in range(4):
                d = recipes.gen_ctx_desc(rng, mode)
                d["args"] = [rng.randrange(0, 16).to_bytes(8, "big").hex() for _ in range(4)]
                ctxs.append(d)
            check_recipe(acc, recipe, [v] + ([rng.choice([4, 6, 8, 10])] if v < 4 or rng.random() < .3 else []), ctxs, "skeleton")
            acc.counters["skeleton_cases"] += 1
    return acc.result()


MANIFEST_ENTRY = {
    "technique": "runtime differential: compiled programs executed on a sanitizing reference AVM vs a direct big-step evaluation of the same recipe",
    "text": ("Thousands of generated programs per run (typed random recipes over every constructor named in the property, and all "
             "control skeletons up to a node bound) are compiled by the real compiler at several versions and in both modes, the "
             "emitted TEAL is executed on the reference AVM for several transaction contexts each, and verdict, return value, ordered "
             "log/state/inner-transaction trace and user-numbered slots are compared with a direct evaluation of the recipe that never "
             "saw the compiler. Held = held on the executions listed. Since round 4 the same recipes are also compiled with the scratch-slot optimisation on (as a user gets it by default from v9) and with assembled constants over str literals; routines that begin with a loop or conditional and MultiValue operators (Python-integer oracle) have their own families; the one known optimiser defect is attributed by mechanism and counterfactual."),
    "note": "Trusted: vlib/refeval.py (source semantics), vlib/avm.py + prims.py (calibrated on golden programs). Opcode budget not modelled.",
}
