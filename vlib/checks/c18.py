"""C18 - comments, pragmas, nonces and names never change the code.

Monitor: a base program and annotated variants of it (Comment around statements, standalone comments, Assert comments, satisfied
Pragma around expressions, Nonce in every base, hostile subroutine names) are compiled by the real compiler; both texts are read
by the independent Go-assembler tokenizer (comments dropped), labels are alpha-renamed in order of definition, the documented
'byte <nonce>; pop' of a Nonce is removed, and the instruction streams must be identical.  Both programs are also executed on the
reference AVM with the same context: identical outcomes.
"""
import copy

from .. import recipes

RECURSION_LIMIT = 6000

SPEC = {
    "level": "exploration",
    "rule": ("base programs: C01/C02-style recipes (random, mutual recursion, skeletons).  Annotated variants: (a) one annotation at one "
             "position, rotating over every statement/expression position; (b) bulk random annotation.  Annotation kinds: Comment(text, stmt), "
             "standalone Comment(text) between statements, Assert(..., comment=text), Pragma(expr, compiler_version satisfied), top-level Nonce "
             "in utf8/base16/base32/base64, subroutine name=text.  Texts over all code points with bias to line breaks (\\n, \\r, \\x0b, "
             "\\x0c, \\x85, \\u2028), quotes, '//', ';', '#pragma', opcode names, label-like text.  An evaluation is one (base, variant) pair "
             "compared as instruction streams and by execution; non-trivial = the variant carries at least one hostile text (line break, "
             "opcode or label spelling); distinct = distinct (recipe, annotation) hashes."),
    "assumptions": ["vlib/tealgrammar.py tokenizer drops exactly what the assembler treats as comments", "label alpha-renaming in order of definition"],
    "min_evaluations": {"quick": 4000, "thorough": 50000},
    "must_reach": ["streams_equal", "kind_comment_after_exit", "universal_newline_model_compared", "kind_comment_wrap", "kind_comment_alone", "kind_comment_after_store", "kind_assert_comment", "kind_pragma", "kind_nonce", "kind_subname", "exec_equal", "pairs_with_slot_optimisation"],
    "shard_timeout": {"quick": 2400, "thorough": 14400},
}

KNOWN = "C18-comment-in-empty-block"

_SAT = []


def satisfied_constraints():
    """Every spelling of a constraint the running compiler version satisfies: comparators, intersections (blank separated), unions,
    hyphen ranges with and without the v prefix, x-ranges, caret and tilde ranges, bare versions."""
    if not _SAT:
        import importlib.metadata
        import re
        m = re.match(r"(\d+)\.(\d+)\.(\d+)", importlib.metadata.version("pyteal"))
        M, mi, pa = (int(x) for x in m.groups())
        v = "%d.%d.%d" % (M, mi, pa)
        _SAT.extend([">=0.0.1", ">0.0.0", "<100.0.0", ">=0.20.0", "*", "0.0.1 - 100.0.0", "%s - 100.0.0" % v, "0.0.1 - %s" % v, "%s - %s" % (v, v),
                     "v0.0.1 - v100.0.0", ">=0.0.1 <100.0.0", ">=0.0.1 %d.%d.x" % (M, mi), "%d.x" % M, "%d.%d.x" % (M, mi), "%d.%d.*" % (M, mi),
                     "^%s" % v, "~%d.%d" % (M, mi), "~%s" % v, "=%s" % v, v, "%d.%d" % (M, mi), "<=%d" % (M + 1), ">=0.0.1 || <0.0.1", "<0.0.1 || 0.0.1 - 100.0.0",
                     "<0.0.1 || >=%s" % v, "<=%s" % v, ">=%s" % v])
    return _SAT


HOSTILE = ["err", "int 0\nreturn", "x\nerr", "x\rerr", "a\r\nint 0", "l0:", "main_l1:", "b main_l0", "//", "// x", ";", "; err", "a;b", '"', '\\', '"x', "#pragma version 2",
           "\x0berr", "\x0cerr", "\x85err", " err", " int 1", "\x1cerr", "", " ", "\t", "retsub", "callsub f", "byte \"x\"", "é", "😀", "\x00", "a" * 300,
           "pop\npop", "return", "x\n", "\nx", "\n", "\n\n", "store 0", "load 255", "intcblock 1 2 3", "txn Sender // c", "label: err"]


def plan(tier, seed):
    n = 16 if tier == "quick" else 64
    return [{"seed": seed, "shard": i, "nshards": n, "tier": tier, "n": 70 if tier == "quick" else 600} for i in range(n)]


def rtext(rng):
    r = rng.random()
    if r < .55:
        return rng.choice(HOSTILE)
    if r < .75:
        return rng.choice(HOSTILE) + rng.choice([" ", "\n", "", "x"]) + rng.choice(HOSTILE)
    if r < .9:
        return "".join(chr(rng.choice([rng.randrange(0x20, 0x7f), rng.randrange(0, 0x20), rng.randrange(0x80, 0x2100), 0x2028, 0x85, 10, 13])) for _ in range(rng.randrange(0, 12)))
    return "plain comment %d" % rng.randrange(100)


def is_hostile(t):
    return any(c in t for c in "\n\r\x0b\x0c\x85  \x1c\x1d\x1e;\"\\#:") or t.strip() in ("err", "return", "retsub", "pop")


STARTS_WITH_OP = {"store", "log", "gput", "gdel", "lput", "ldel", "pop", "assert", "itxn", "if", "ifchain", "cond", "while", "pstore", "dstore", "callstmt", "abicall",
                  "return", "approve", "reject", "err"}


def positions(recipe):
    """Statement lists of the recipe (mutable references) for annotation."""
    lists = []

    def stmt(s):
        k = s[0]
        if k == "seq":
            lists.append(s[1])
            for x in s[1]:
                stmt(x)
        elif k == "if":
            stmt(s[2])
            if s[3] is not None:
                stmt(s[3])
        elif k in ("ifchain", "cond"):
            for c, b in s[1]:
                stmt(b)
            if k == "ifchain" and s[2] is not None:
                stmt(s[2])
        elif k == "while":
            stmt(s[2])
        elif k == "for":
            stmt(s[4])
        elif k == "comment" and s[2] is not None:
            stmt(s[2])
    lists.append(recipe["main"])
    for s in recipe["main"]:
        stmt(s)
    for sub in recipe["subs"]:
        lists.append(sub["body"])
        for s in sub["body"]:
            stmt(s)
    return lists


def annotate(rng, recipe, bulk):
    """Returns (annotated recipe, list of annotation descriptions, nonce or None)."""
    r = copy.deepcopy(recipe)
    notes = []
    lists = positions(r)
    budget = rng.randrange(3, 12) if bulk else 1
    tries = 0
    nonce = None
    while budget > 0 and tries < 60:
        tries += 1
        kind = rng.choice(["comment_wrap", "comment_wrap", "comment_alone", "assert_comment", "pragma", "nonce", "subname", "comment_after_exit", "comment_after_store"])
        t = rtext(rng)
        if kind == "comment_wrap":
            L = rng.choice(lists)
            cands = [i for i, s in enumerate(L) if s[0] in STARTS_WITH_OP]
            if not cands:
                continue
            i = rng.choice(cands)
            L[i] = ["comment", t, L[i]]
        elif kind == "comment_alone":
            L = rng.choice(lists)
            # only directly in front of a statement that starts with a real opcode in the same block (see known finding)
            cands = [i for i, s in enumerate(L) if s[0] in STARTS_WITH_OP and s[0] not in ("while",)]
            if not cands:
                continue
            i = rng.choice(cands)
            L.insert(i, ["comment", t, None])
        elif kind == "comment_after_store":
            # one or several comment lines between a store and the statement that follows it (often the variable's next load)
            L = rng.choice(lists)
            cands = [i for i, st in enumerate(L[:-1]) if st[0] == "store" and L[i + 1][0] in STARTS_WITH_OP]
            if not cands:
                continue
            i = rng.choice(cands)
            t = rng.choice([t, "one\ntwo", "a\r\nb\nc", "x\u2028y", "first"])
            L.insert(i + 1, ["comment", t, None])
            if rng.random() < .4:
                L.insert(i + 1, ["comment", "stacked", None])
        elif kind == "comment_after_exit":
            # a comment standing directly behind Return/Approve/Reject/Err in the same Seq (an arm of a conditional or a loop body)
            found = []

            def look(n):
                if n[0] == "if":
                    for pos in (2, 3):
                        if n[pos] is not None and n[pos][0] in ("return", "approve", "reject", "err"):
                            found.append((n, pos))
                if n[0] in ("cond", "ifchain"):
                    for arm in n[1]:
                        if arm[1][0] in ("return", "approve", "reject", "err"):
                            found.append((arm, 1))
            recipes.walk(r["main"], look)
            for sub in r["subs"]:
                recipes.walk(sub["body"], look)
            if not found:
                continue
            node, pos = rng.choice(found)
            node[pos] = ["seq", [node[pos], ["comment", t, None]]]
        elif kind == "assert_comment":
            found = []
            recipes.walk(r["main"], lambda n: found.append(n) if n[0] == "assert" else None)
            for sub in r["subs"]:
                recipes.walk(sub["body"], lambda n: found.append(n) if n[0] == "assert" else None)
            if not found:
                continue
            a = rng.choice(found)
            while len(a) < 3:
                a.append(None)
            a[2] = t
        elif kind == "pragma":
            found = []
            recipes.walk(r["main"], lambda n: found.append(n) if n[0] in ("bin", "itob", "btoi", "len", "nary") else None)
            if not found:
                continue
            e = rng.choice(found)
            inner = list(e)
            del e[:]
            e.extend(["pragma", inner, rng.choice(satisfied_constraints())])
        elif kind == "nonce":
            if nonce is not None:
                continue
            import base64
            raw = t.encode("utf-8", "ignore")[:40]
            base = rng.choice(["utf8", "base16", "base32", "base64"])
            if base == "utf8":
                nonce = [base, raw.decode("utf-8", "ignore")]
            elif base == "base16":
                nonce = [base, raw.hex()]
            elif base == "base32":
                nonce = [base, base64.b32encode(raw).decode().rstrip("=")]
            else:
                nonce = [base, base64.b64encode(raw).decode()]
        else:
            if not r["subs"]:
                continue
            target = rng.choice(r["subs"])
            rr = rng.random()
            if rr < .25:
                # names spelled like operands the program already contains: named constants, field names, opcode names
                t = rng.choice(["pay", "axfer", "appl", "NoOp", "OptIn", "TypeEnum", "Sender", "Amount", "ApplicationArgs", "ApplicationID", "Fee", "int", "txn", "b",
                                "OnCompletion", "GroupIndex", "NumAppArgs"])
            elif rr < .32:
                # ... or exactly like another subroutine (two routines of one name are still two routines)
                other = rng.choice(r["subs"])
                t = other.get("label") or other["name"]
            elif rr < .4:
                # ... or like the label another subroutine gets
                other = rng.choice(r["subs"])
                t = "%s_%d" % (other.get("label") or other["name"], rng.randrange(0, len(r["subs"]) + 1))
            elif rr < .5:
                # very long runs of characters the label sanitiser removes, followed by text that must not survive
                t = rng.choice(["-", "!", " ", "\u00e9", "_"]) * rng.choice([255, 256, 257, 300, 600]) + rng.choice([" ; err", "\nerr", " // x\nint 0", " x y", ";"])
            target["label"] = t
        notes.append([kind, t])
        budget -= 1
    return r, notes, nonce


def normalise(teal, nonce_bytes=None):
    """Executable instruction stream: comments dropped by the assembler tokenizer, every label resolved to the index of the
    instruction it stands in front of (so label spellings and duplicate labels at one position do not matter), the documented
    leading nonce push/pop removed."""
    from .. import tealgrammar as G
    prog = G.parse_any(teal)
    ins = [[I.op] + list(I.args) for I in prog.instrs]
    drop = 0
    if nonce_bytes is not None and len(ins) >= 2 and ins[0][0] == "byte" and ins[1] == ["pop"]:
        try:
            got, _ = G.parse_bytes_args(ins[0][1:])
        except G.ParseError:
            got = None
        if got == nonce_bytes:
            drop = 2
    out = [["#version", str(prog.version)]]
    for toks in ins[drop:]:
        if toks[0] in ("b", "bz", "bnz", "callsub") and len(toks) == 2:
            pc = prog.labels.get(toks[1])
            out.append([toks[0], "@%s" % (pc - drop if pc is not None else "?" + toks[1])])
        else:
            out.append(toks)
    return out


def compile_variant(pt, recipe, nonce, version, mode, fp):
    from .. import build
    from ..common import reset_globals
    reset_globals()
    prog = build.build(recipe)
    if nonce is not None:
        prog = pt.Nonce(nonce[0], nonce[1], prog)
    ss = False
    if isinstance(fp, (list, tuple)):  # [frame_pointers, scratch_slots]: annotations must not matter to the optimiser either
        fp, ss = fp
    return pt.compileTeal(prog, pt.Mode.Application if mode == "app" else pt.Mode.Signature, version=version,
                          optimize=pt.OptimizeOptions(scratch_slots=ss, frame_pointers=fp))


def nonce_value(nonce):
    import base64
    base, s = nonce
    if base == "utf8":
        return s.encode()
    if base == "base16":
        return bytes.fromhex(s)
    if base == "base32":
        return base64.b32decode(s + "=" * (-len(s) % 8))
    return base64.b64decode(s)


def check_pair(acc, pt, recipe, variant, notes, nonce, version, mode, fp, ctx, origin):
    from .. import rcase
    from ..common import PT_ERRORS, h
    acc.evaluations += 1
    case = {"recipe": recipe, "variant": variant, "notes": notes, "nonce": nonce, "version": version, "mode": mode, "fp": fp, "origin": origin, "ctx": ctx}
    try:
        base_teal = compile_variant(pt, recipe, None, version, mode, fp)
    except PT_ERRORS:
        acc.counters["base_rejected"] += 1
        return
    except Exception as e:
        acc.counters["base_crashed:" + type(e).__name__] += 1
        return
    try:
        var_teal = compile_variant(pt, variant, nonce, version, mode, fp)
    except PT_ERRORS as e:
        # an annotation made a compilable program uncompilable.  A malformed nonce literal / pragma is the user's error; text in
        # comments and names must never be.
        if any(k in ("nonce",) for k, _ in notes) and "nonce" in str(e).lower() or "base" in str(e).lower():
            acc.counters["variant_rejected_nonce_literal"] += 1
            return
        acc.violation("annotation_breaks_compilation", case, "%s: %s" % (type(e).__name__, str(e)[:300]))
        return
    except Exception as e:
        acc.violation("annotation_crashes_compiler", case, "%s: %s" % (type(e).__name__, str(e)[:300]))
        return
    for k, t in notes:
        acc.counters["kind_" + k] += 1
    if any(is_hostile(t) for _, t in notes):
        acc.nontrivial.add(h([recipe, notes, nonce]))
    nb = nonce_value(nonce) if nonce is not None else None
    a, b = normalise(base_teal), normalise(var_teal, nb)
    if a == b:
        # second line model: tools that split TEAL text on every Unicode line boundary (as PyTeal's own Comment/annotation code
        # does with str.splitlines) must see the same stream too
        try:
            a2, b2 = normalise("\n".join(base_teal.splitlines())), normalise("\n".join(var_teal.splitlines()), nb)
            acc.counters["universal_newline_model_compared"] += 1
            if a2 != b2 or a2 != a:
                a, b = a2, b2
                if a2 == b2:
                    b = b + [["<differs from the \\n-only line model>"]]
        except Exception as e:
            a, b = a, b + [["<unparseable under the universal-newline line model: %s>" % str(e)[:80]]]
    if a != b:
        i = 0
        while i < min(len(a), len(b)) and a[i] == b[i]:
            i += 1
        acc.violation("stream_differs", case, "instruction streams differ at #%d: base %r vs annotated %r (lengths %d/%d); annotations %r"
                      % (i, a[i] if i < len(a) else None, b[i] if i < len(b) else None, len(a), len(b), notes[:3]), teal=var_teal[-1500:])
        return
    acc.counters["streams_equal"] += 1
    # execution echo
    try:
        pa, pb = rcase.G.parse_any(base_teal), rcase.G.parse_any(var_teal)
    except rcase.G.ParseError as e:
        acc.violation("annotated_unparseable", case, str(e))
        return
    ga, gb = rcase.run_avm(pa, ctx), rcase.run_avm(pb, ctx)
    if ga.dropped or gb.dropped:
        return
    if (ga.status, ga.ret, ga.effects) != (gb.status, gb.ret, gb.effects):
        acc.violation("behaviour_differs", case, "base %s/%r vs annotated %s/%r" % (ga.status, ga.ret, gb.status, gb.ret))
    else:
        acc.counters["exec_equal"] += 1
    if len(acc.samples) < 4:
        acc.sample({"annotations": notes[:3], "nonce": nonce, "version": version, "mode": mode, "instructions": len(a)})


def run_shard(shard):
    import pyteal as pt
    from ..common import Acc, rng_for
    from . import c02
    acc = Acc()
    if "replay" in shard:
        c = shard["replay"]
        check_pair(acc, pt, c["recipe"], c["variant"], c["notes"], c["nonce"], c["version"], c["mode"], c["fp"], c["ctx"], c.get("origin", "replay"))
        return acc.result()
    rng = rng_for(shard["seed"], "c18", shard["shard"])
    for i in range(shard["n"]):
        vgen = rng.choice([2, 3, 4, 5, 6, 7, 8, 9, 10])
        mode = "sig" if rng.random() < .2 else "app"
        r0 = rng.random()
        try:
            if r0 < .2 and mode == "app":
                from . import c03
                recipe = c03.opt_family(rng, vgen)  # store/load pairs the slot optimiser rewrites
            elif r0 < .7 or mode == "sig":
                recipe = recipes.Gen(rng, version=vgen, mode=mode, min_subs=rng.choice([0, 1])).program()
            else:
                recipe = c02.mutual_family(rng)
        except RecursionError:
            continue
        lo = recipes.min_version(recipe)
        if any(n[0] == "log" for n in recipes.all_nodes(recipe)):
            lo = max(lo, 5)
        v = max(vgen, lo)
        fp = rng.choice([None, False])
        ctx = recipes.gen_ctx_desc(rng, mode)
        for j in range(4):
            variant, notes, nonce = annotate(rng, recipe, bulk=(j == 3))
            if not notes:
                continue
            ss = rng.choice([False, False, None, True])
            if ss is not False:
                acc.counters["pairs_with_slot_optimisation"] += 1
            check_pair(acc, pt, recipe, variant, notes, nonce, v, mode, [fp, ss], ctx, "random")
    for _ in range(6):
        name_sequence_probe(acc, pt, rng)
    if shard["shard"] == 0:
        known_probe(acc, pt, rng)
    return acc.result()


def name_sequence_probe(acc, pt, rng):
    """Programs compiled one after the other that share subroutine objects: the streams must not depend on how the subroutines
    are named (all alike, alike after label sanitising, or all different)."""
    from .. import rcase
    from ..common import PT_ERRORS, h, reset_globals
    v = rng.choice([4, 6, 8, 10])
    plan = [rng.sample(range(4), rng.choice([1, 2, 3])) for _ in range(rng.choice([2, 3]))]
    schemes = {"distinct": ["h0", "h1", "h2", "h3"], "same": ["helper"] * 4, "sanitise_alike": ["he lper", "helper", "_helper", "he-lper"]}
    streams = {}
    for sname, names in schemes.items():
        reset_globals()

        def mk(j):
            def body(x):
                return x * pt.Int(3) + pt.Int(j + 1)
            return pt.Subroutine(pt.TealType.uint64, name=names[j])(body)
        pool = [mk(j) for j in range(4)]
        outs = []
        try:
            for chosen in plan:
                e = pt.Int(1)
                for j in chosen:
                    e = e + pool[j](pt.Int(2 + j))
                outs.append(normalise(pt.compileTeal(e, pt.Mode.Application, version=v)))
        except Exception as ex:
            outs = "EXC %s: %s" % (type(ex).__name__, str(ex)[:120])
        streams[sname] = outs
    acc.evaluations += 1
    acc.counters["kind_name_sequence"] += 1
    case = {"probe": "name_sequence", "plan": plan, "version": v}
    if streams["same"] != streams["distinct"] or streams["sanitise_alike"] != streams["distinct"]:
        bad = "same" if streams["same"] != streams["distinct"] else "sanitise_alike"
        acc.violation("stream_differs", case, "a sequence of programs sharing subroutine objects compiles differently when the subroutines are named %r instead of %r: %s"
                      % (schemes[bad], schemes["distinct"], str(streams[bad])[:200] if isinstance(streams[bad], str) else "instruction streams differ"))
    else:
        acc.counters["streams_equal"] += 1
        acc.nontrivial.add(h(case))


def known_probe(acc, pt, rng):
    """Known finding: a Comment that is the only content of an otherwise empty block (here: around Break) adds a trampoline block."""
    base = {"mode": "app", "vars": [{"id": "i", "t": "u", "kind": "sv", "slot": None}], "subs": [], "final": ["int", 1],
            "main": [["store", "i", ["int", 0]], ["while", ["bin", "<", ["load", "i"], ["int", 3]],
                                                    ["seq", [["store", "i", ["bin", "+", ["load", "i"], ["int", 1]]], ["if", ["bin", "==", ["load", "i"], ["int", 2]], ["break"], None]]]]]}
    base["main"][1][2][1][1][2] = ["continue"]
    base["main"][1][2][1].append(["pop", ["int", 7]])
    var = copy.deepcopy(base)
    var["main"][1][2][1][1][2] = ["comment", "leaving", ["continue"]]
    check_pair(acc, pt, base, var, [["comment_on_break", "leaving"]], None, 6, "app", None, recipes.gen_ctx_desc(rng, "app"), "known_probe")


def classify(v):
    case = v.get("case") or {}
    if v.get("kind") == "stream_differs" and case.get("origin") == "known_probe" and case.get("notes") and case["notes"][0][0] == "comment_on_break":
        return KNOWN
    return None


MANIFEST_ENTRY = {
    "technique": "runtime differential: base vs annotated compilations compared as comment-free, label-renamed instruction streams (independent assembler tokenizer) and by execution on the reference AVM",
    "text": ("Generated programs are compiled by the real compiler with and without annotations - Comment around statements and standing "
             "alone, Assert comments, satisfied Pragmas, Nonce in each base, subroutine names - whose texts are drawn from a hostile pool "
             "(all Unicode line breaks, quotes, comment and separator sequences, opcode and label spellings). The two texts are tokenised by "
             "an independent implementation of the assembler's tokenizer, labels alpha-renamed, the documented nonce push/pop removed, and "
             "the instruction streams must be identical; both programs are executed on the same context with identical outcomes. "
             "Held = held on the pairs listed."),
    "note": "Known finding: Comment as the only content of an otherwise empty block (around Break/Continue) adds a trampoline block (probed, excluded from the main workload).",
}
