"""C10 - every variable is its own storage cell; slot limits are enforced.

Monitor: programs with many simultaneously live variables of every kind (automatic and explicitly numbered ScratchVars,
DynamicScratchVar aliases, ABI values in the main routine and inside (recursive) subroutines, MaybeValue temporaries) write a unique
marker into each variable, shuffle, overwrite some, call subroutines, and read everything back into a hash chain kept in
application state (no scratch slot).  Oracles: the markers themselves (expected chain computed in Python); the final scratch array
of the reference AVM (each marker in exactly one slot, explicit ids honoured); v.index() read at run time.  Programs needing more
than 256 slots or requesting an id twice must be rejected.
"""
import hashlib

from .. import avm

SPEC = {
    "level": "exploration",
    "rule": ("programs with 1..256 variables mixing automatic ScratchVars, explicitly numbered ones (random ids, dense blocks 0..k and 250..255), "
             "DynamicScratchVar pointed at each kind, ABI uint64/string/bool values in main and 0..140 per subroutine (crossing the 128 "
             "frame-local boundary), MaybeValue temporaries, a recursive subroutine whose locals are spilled; interleaved write / overwrite / "
             "read orders; versions 5..10 x scratch-slot optimisation x frame pointers.  Plus must-reject cases: > 256 slots (257..300 "
             "variables), the same id requested twice, ids out of range.  An evaluation is one compiled program executed (all variables "
             "read back) or one must-reject attempt; non-trivial = at least 32 simultaneously live variables or a mix of >= 3 kinds."),
    "assumptions": ["vlib/avm.py scratch/frame semantics", "sha256 chain over read-back values computed independently in Python"],
    "min_evaluations": {"quick": 600, "thorough": 6000},
    "must_reach": ["readback_ok", "explicit_ids_honoured", "index_observed", "dynamic_alias_ok", "over_256_rejected", "duplicate_id_rejected",
                   "full_256_compiled", "frame_locals_over_128", "recursion_spill_ok", "abi_output_sub_ok", "reused_options_object"],
    "shard_timeout": {"quick": 2400, "thorough": 14400},
}


def plan(tier, seed):
    n = 16 if tier == "quick" else 64
    return [{"seed": seed, "shard": i, "nshards": n, "tier": tier, "n": 36 if tier == "quick" else 140} for i in range(n)]


def gen_case(rng, big=False):
    total = rng.choice([1, 2, 5, 17, 40, 100, 180, 240, 250]) if not big else rng.choice([254, 255, 256])
    n_explicit = min(total, rng.choice([0, 0, 1, 3, 8, 20, 60]))
    pool = list(range(256))
    style = rng.random()
    if style < .3:
        ids = list(range(n_explicit))
    elif style < .5:
        ids = list(range(256 - n_explicit, 256))
    else:
        ids = rng.sample(pool, n_explicit)
    rng.shuffle(ids)
    rest = total - n_explicit
    n_abi = min(rest, rng.choice([0, 0, 2, 10, 40]))
    rest -= n_abi
    n_dyn = min(rest // 2, rng.choice([0, 0, 1, 3]))
    rest -= n_dyn
    n_mv = 1 if rest >= 3 and rng.random() < .3 else 0
    rest -= 2 * n_mv
    sub = None
    version = rng.choice([5, 6, 7, 8, 9, 10])
    if rest >= 6 and rng.random() < .5 and not big:
        sv = rng.choice([1, 3, 8])
        sub = {"n_sv": min(sv, rest - 1), "n_abi": rng.choice([0, 2, 20, 126, 127, 128, 129, 140]), "recursive": rng.random() < .5, "abi_out": rng.random() < .4}
        rest -= sub["n_sv"]
        if version < 8:
            # scratch convention: the subroutine's ABI locals take slots too
            sub["n_abi"] = min(sub["n_abi"], max(0, rest - 4))
            rest -= sub["n_abi"] + 3
    fp = rng.choice([None, None, False]) if version >= 8 else None
    if sub and fp is False:
        sub["n_abi"] = min(sub["n_abi"], max(0, rest - 4))
        rest -= sub["n_abi"] + 3
    # under frame pointers at most 128 ABI locals live in the frame; the rest fall back to scratch slots
    if sub and version >= 8 and fp is not False:
        rest -= max(0, sub["n_abi"] - 120)
    # explicitly numbered variables that are only ever reached through their index (a DynamicScratchVar alias or a by-reference
    # parameter), with ids low enough for automatic numbering to arrive at them
    index_only = []
    if rest >= 8 and rng.random() < .4:
        lows = [i for i in range(min(rest - 4, 40)) if i not in ids]
        index_only = rng.sample(lows, min(len(lows), rng.choice([1, 1, 2])))
        rest -= 6 * len(index_only)  # the variable, its alias, and the parameter slots of the by-reference helpers (two levels)
    gadgets = 0
    if rest >= 16 and rng.random() < .6:
        gadgets = rng.choice([2, 4])
        rest -= 2 * gadgets + 2
    return {"n_auto": max(rest, 0), "explicit": ids, "index_only": index_only, "gadgets": gadgets, "n_abi": n_abi, "n_dyn": n_dyn, "n_mv": n_mv, "sub": sub, "version": version,
            "ss": rng.choice([None, False, True]), "fp": fp, "order": rng.randrange(10**9), "bytes_every": rng.choice([0, 3, 5])}


def build(pt, case):
    """Returns (program expr, expected dict)."""
    import random
    rng = random.Random(case["order"])
    I, B = pt.Int, pt.Bytes
    H = B("h")
    steps = [pt.App.globalPut(H, B(""))]
    exp = {"chain": b"", "explicit_final": {}, "markers": [], "index_logs": [], "n_live": 0}

    def absorb(expr_bytes):
        return pt.App.globalPut(H, pt.Sha256(pt.Concat(pt.App.globalGet(H), expr_bytes)))

    def chain(b):
        exp["chain"] = hashlib.sha256(exp["chain"] + b).digest()
    vars_ = []  # (kind, obj, marker value, isbytes)
    k = 0

    def marker(isb):
        nonlocal k
        k += 1
        return (b"m%05d" % k) if isb else 100000 + k
    be = case["bytes_every"]
    for i in range(case["n_auto"]):
        isb = bool(be) and i % be == 0
        vars_.append(["auto", pt.ScratchVar(pt.TealType.bytes if isb else pt.TealType.uint64), None, isb, None])
    for sid in case["explicit"]:
        vars_.append(["explicit", pt.ScratchVar(pt.TealType.uint64, sid), None, False, sid])
    for i in range(case["n_abi"]):
        t = [pt.abi.Uint64, pt.abi.String, pt.abi.Uint16][i % 3]
        vars_.append(["abi", t(), None, t is pt.abi.String, None])
    order = list(range(len(vars_)))
    rng.shuffle(order)

    def val_expr(m, isb):
        return B(m) if isb else I(m)

    def setv(v, m):
        kind, obj, _, isb, _ = v
        v[2] = m
        if kind == "abi":
            return obj.set((m % 65536) if isinstance(obj, pt.abi.Uint16) else (m.decode() if isb else m))
        return obj.store(val_expr(m, isb))

    def getv_bytes(v):
        kind, obj, m, isb, _ = v
        if kind == "abi":
            g = obj.get()
        else:
            g = obj.load()
        return g if isb else pt.Itob(g)

    def expect_bytes(v):
        kind, obj, m, isb, _ = v
        if isb:
            return m
        if kind == "abi" and isinstance(obj, pt.abi.Uint16):
            return (m % 65536).to_bytes(8, "big")
        return m.to_bytes(8, "big")
    for i in order:
        v = vars_[i]
        steps.append(setv(v, marker(v[3])))
    # dynamic aliases: point at a variable, write through the alias
    dyns = []
    targets = [v for v in vars_ if v[0] in ("auto", "explicit") and not v[3]]
    for i in range(case["n_dyn"]):
        if not targets:
            break
        d = pt.DynamicScratchVar(pt.TealType.uint64)
        t = rng.choice(targets)
        m = marker(False)
        steps += [d.set_index(t[1]), d.store(I(m))]
        t[2] = m
        steps.append(absorb(pt.Itob(d.load())))
        chain(m.to_bytes(8, "big"))
        steps.append(pt.Assert(d.index() == t[1].index()))
        dyns.append(d)
    # variables with a requested id that are only reached through index()
    index_only = []
    for sid in case.get("index_only", []):
        w = pt.ScratchVar(pt.TealType.uint64, sid)
        d = pt.DynamicScratchVar(pt.TealType.uint64)
        m = marker(False)
        if sid % 2:
            def put(ref: pt.ScratchVar, val):
                return ref.store(val)
            put.__name__ = "put%d" % sid
            putter = pt.Subroutine(pt.TealType.none)(put)
            if sid % 4 == 3:
                # two levels: the helper hands its own by-reference parameter on to the routine that writes
                def fwd(val, ref: pt.ScratchVar):
                    return putter(ref, val + I(0))
                fwd.__name__ = "fwd%d" % sid
                steps.append(pt.Subroutine(pt.TealType.none)(fwd)(I(m), w))
            else:
                steps.append(putter(w, I(m)))
        else:
            steps += [d.set_index(w), d.store(I(m))]
        index_only.append((w, d, m, sid))
        exp["explicit_final"][sid] = m  # (not a unique-placement marker: a by-reference helper's own parameter slot holds it too)
    # MaybeValue temporaries live across the read-back
    mvs = []
    for i in range(case["n_mv"]):
        mv = pt.App.globalGetEx(I(0), B("missing"))
        steps.append(mv)
        mvs.append(mv)
    # overwrite a subset
    for i in rng.sample(order, len(order) // 3):
        v = vars_[i]
        steps.append(setv(v, marker(v[3])))
    # subroutine with its own locals (scratch or frame), optionally recursive
    if case["sub"]:
        sd = case["sub"]

        def body(n):
            loc = [pt.ScratchVar(pt.TealType.uint64) for _ in range(sd["n_sv"])]
            ab = [pt.abi.Uint64() for _ in range(sd["n_abi"])]
            st = [x.store(n * I(1000) + I(j)) for j, x in enumerate(loc)]
            st += [x.set(n * I(1000) + I(500 + j)) for j, x in enumerate(ab)]
            if sd["recursive"]:
                st.append(pt.If(n > I(0)).Then(pt.Pop(subr(n - I(1)))))
            chk = [pt.Assert(x.load() == n * I(1000) + I(j)) for j, x in enumerate(loc)]
            chk += [pt.Assert(x.get() == n * I(1000) + I(500 + j)) for j, x in enumerate(ab)]
            return pt.Seq(*st, *chk, n + I(1))
        body.__name__ = "locals_sub"
        if sd.get("abi_out"):
            # the same locals inside an ABI-returning routine (its output occupies frame cell 0 under frame pointers)
            def abody(n: pt.abi.Uint64, *, output: pt.abi.Uint64):
                nn = n.get()
                loc = [pt.ScratchVar(pt.TealType.uint64) for _ in range(sd["n_sv"])]
                ab = [pt.abi.Uint64() for _ in range(sd["n_abi"])]
                st = [x.store(nn * I(1000) + I(j)) for j, x in enumerate(loc)]
                st += [x.set(nn * I(1000) + I(500 + j)) for j, x in enumerate(ab)]
                chk = [pt.Assert(x.load() == nn * I(1000) + I(j)) for j, x in enumerate(loc)]
                chk += [pt.Assert(x.get() == nn * I(1000) + I(500 + j)) for j, x in enumerate(ab)]
                return pt.Seq(*st, *chk, output.set(nn + I(1)))
            abody.__name__ = "locals_abi_sub"
            asub = pt.ABIReturnSubroutine(abody)
            arg, res = pt.abi.Uint64(), pt.abi.Uint64()
            steps += [arg.set(2), asub(arg).store_into(res), absorb(pt.Itob(res.get()))]
            exp["extra_live"] = 2
        else:
            subr = pt.Subroutine(pt.TealType.uint64)(body)
            steps.append(absorb(pt.Itob(subr(I(2)))))
        chain((3).to_bytes(8, "big"))
    exp["n_live"] = len(vars_) + len(dyns) + 2 * len(mvs) + 6 * len(index_only)
    # read everything back in another order
    order2 = list(range(len(vars_)))
    rng.shuffle(order2)
    for i in order2:
        v = vars_[i]
        steps.append(absorb(getv_bytes(v)))
        chain(expect_bytes(v))
    for w, d, m, sid in index_only:
        steps += [d.set_index(w), absorb(pt.Itob(d.load())), pt.Log(pt.Itob(d.index()))]
        chain(m.to_bytes(8, "big"))
        exp["index_logs"].append(sid.to_bytes(8, "big"))
    for mv in mvs:
        steps.append(absorb(pt.Itob(mv.hasValue())))
        chain((0).to_bytes(8, "big"))
    # automatic variables stored and read back at the start of a short block, and read again in a nested block after k filler
    # operations (so that the later read sits at every small op index, including the index of the first read): the value read
    # last is the value stored
    if case.get("gadgets"):
        for g in range(case["gadgets"]):
            t = pt.ScratchVar(pt.TealType.uint64)
            m = marker(False)
            nfill = rng.randrange(0, 6)
            val = [I(m), I(m - 1) + I(1), I(m) + I(0) * I(3)][rng.randrange(3)]
            filler = [pt.Pop(I(9)) for _ in range(nfill)]
            t2 = pt.ScratchVar(pt.TealType.uint64)
            inner = pt.If(t.load() > I(0)).Then(pt.Seq(*filler, t2.store(t.load() + I(0)), absorb(pt.Itob(t2.load()))))
            steps.append(pt.If(I(1)).Then(pt.Seq(t.store(val), inner)))
            chain(m.to_bytes(8, "big"))
            exp["n_live"] += 2
    # explicitly numbered variables that are stored and read exactly once, back to back: the slot optimiser must leave requested
    # ids alone (they are visible to other transactions through gload), so the value must still be in the slot at exit
    if exp["n_live"] <= 240:
        free = [i for i in range(256) if i not in case["explicit"] and i not in case.get("index_only", [])]
        for sid in rng.sample(free, 2):
            w = pt.ScratchVar(pt.TealType.uint64, sid)
            m = marker(False)
            steps.append(pt.Seq(w.store(I(m)), pt.Pop(w.load())))
            exp["explicit_final"][sid] = m
            exp["markers"].append(m)
            exp["n_live"] += 1
    # observe index() of a few explicit variables at run time
    ex = [v for v in vars_ if v[0] == "explicit"]
    for v in ex[:4]:
        steps.append(pt.Log(pt.Itob(v[1].index())))
        exp["index_logs"].append(v[4].to_bytes(8, "big"))
    for v in vars_:
        if v[0] == "explicit":
            exp["explicit_final"][v[4]] = v[2]
        if v[0] in ("auto", "explicit"):
            exp["markers"].append(v[2])
    exp["n_live"] += 0
    steps.append(I(1))
    return pt.Seq(*steps), exp


def check_case(pt, acc, case, shared_opts=None):
    from ..common import PT_ERRORS, h, reset_globals
    reset_globals()
    acc.evaluations += 1
    try:
        prog, exp = build(pt, case)
        opt = pt.OptimizeOptions(scratch_slots=case["ss"], frame_pointers=case["fp"])
        if shared_opts is not None and case["order"] % 2 == 0:
            # one options object kept for many programs: what an earlier compilation left on it must not matter
            opt = shared_opts.setdefault((case["ss"], case["fp"]), opt)
            acc.counters["reused_options_object"] += 1
        teal = pt.compileTeal(prog, pt.Mode.Application, version=case["version"], optimize=opt)
    except PT_ERRORS as e:
        acc.violation("fitting_program_rejected", case, "%s: %s" % (type(e).__name__, str(e)[:300]))
        return
    except RecursionError:
        acc.counters["dropped_recursion"] += 1
        return
    kinds = sum(1 for k in ("n_auto", "n_abi", "n_dyn", "n_mv") if case[k]) + bool(case["explicit"]) + bool(case["sub"])
    if exp["n_live"] >= 32 or kinds >= 3:
        acc.nontrivial.add(h(case))
    p = avm.parse_any(teal)
    r = avm.run(p, avm.Ctx(), max_steps=400000)
    if r.status != "approve":
        acc.violation("readback_failed", case, "status=%s err=%s" % (r.status, r.error), teal=teal[-1200:])
        return
    got = r.state.get(b"h")
    if got != exp["chain"]:
        acc.violation("readback_mismatch", case, "hash chain over the values read back differs from the chain over the markers last written (%d variables)" % exp["n_live"],
                      teal=teal[-1200:])
        return
    acc.counters["readback_ok"] += 1
    if case["n_dyn"]:
        acc.counters["dynamic_alias_ok"] += 1
    if case["sub"]:
        acc.counters["recursion_spill_ok" if case["sub"]["recursive"] else "sub_locals_ok"] += 1
        if case["sub"].get("abi_out"):
            acc.counters["abi_output_sub_ok"] += 1
        if case["sub"]["n_abi"] > 128 and any(I.op == "proto" for I in p.instrs):
            acc.counters["frame_locals_over_128"] += 1
    if exp["n_live"] >= 256:
        acc.counters["full_256_compiled"] += 1
    if r.logs != exp["index_logs"]:
        acc.violation("index_mismatch", case, "index() observed %r, requested ids %r" % (r.logs, exp["index_logs"]))
        return
    if exp["index_logs"]:
        acc.counters["index_observed"] += 1
    for sid, m in exp["explicit_final"].items():
        if r.scratch[sid] != m:
            acc.violation("explicit_id_not_used", case, "slot %d holds %r at exit, the variable that requested it last stored %r" % (sid, r.scratch[sid], m))
            return
    if exp["explicit_final"]:
        acc.counters["explicit_ids_honoured"] += 1
    # every marker sits in exactly one slot
    where = {}
    for i, x in enumerate(r.scratch):
        where.setdefault(x, []).append(i)
    for m in exp["markers"]:
        if len(where.get(m, [])) != 1:
            acc.violation("marker_placement", case, "marker %r found in slots %r (expected exactly one)" % (m, where.get(m)))
            return
    acc.sample({"variables": exp["n_live"], "explicit_ids": case["explicit"][:6], "version": case["version"], "kinds": kinds}, cap=4)


KINDS = ["over256", "over256_mixed", "over256_split", "duplicate", "duplicate_far", "duplicate_shared", "duplicate_cross_routine", "out_of_range"]


def must_reject(pt, acc, rng, kind=None):
    from ..common import PT_ERRORS, reset_globals
    reset_globals()
    acc.evaluations += 1
    kind = kind or rng.choice(KINDS)
    I = pt.Int
    case = {"probe": kind}
    try:
        if kind == "over256":
            n = rng.choice([257, 258, 300])
            vs = [pt.ScratchVar(pt.TealType.uint64) for _ in range(n)]
            prog = pt.Seq(*[v.store(I(i)) for i, v in enumerate(vs)], pt.Add(*[v.load() for v in vs]))
        elif kind == "over256_mixed":
            vs = [pt.ScratchVar(pt.TealType.uint64) for _ in range(200)] + [pt.ScratchVar(pt.TealType.uint64, i) for i in range(57)]
            prog = pt.Seq(*[v.store(I(i)) for i, v in enumerate(vs)], pt.Add(*[v.load() for v in vs]))
        elif kind == "over256_split":
            # more than 256 variables in total, but no single routine has more than 256 of its own
            total = rng.choice([257, 257, 258, 270, 300])
            nsub = rng.choice([1, 1, 2, 3])
            cuts = sorted(rng.sample(range(20, total - 20), nsub))
            sizes = [b - a for a, b in zip([0] + cuts, cuts + [total])]
            case["sizes"] = sizes

            def mk(j, k):
                def body():
                    loc = [pt.ScratchVar(pt.TealType.uint64) for _ in range(k)]
                    return pt.Seq(*[v.store(I(i)) for i, v in enumerate(loc)], pt.Add(I(0), I(0), *[v.load() for v in loc]))
                body.__name__ = "part%d" % j
                return pt.Subroutine(pt.TealType.uint64)(body)
            subs = [mk(j, k) for j, k in enumerate(sizes[1:])]
            vs = [pt.ScratchVar(pt.TealType.uint64) for _ in range(sizes[0])]
            prog = pt.Seq(*[v.store(I(i)) for i, v in enumerate(vs)], pt.Add(I(0), *[f() for f in subs], *[v.load() for v in vs]))
        elif kind in ("duplicate", "duplicate_far"):
            sid = rng.randrange(256)
            a, b = pt.ScratchVar(pt.TealType.uint64, sid), pt.ScratchVar(pt.TealType.uint64, sid)
            filler = [pt.ScratchVar(pt.TealType.uint64) for _ in range(0 if kind == "duplicate" else 30)]
            prog = pt.Seq(a.store(I(1)), *[v.store(I(2)) for v in filler], b.store(I(3)), a.load() + b.load() + pt.Add(I(0), *[v.load() for v in filler]))
        elif kind in ("duplicate_shared", "duplicate_cross_routine"):
            # the two variables that request one id are both used by several routines (or live in different routines)
            sid = rng.randrange(256)
            a, b = pt.ScratchVar(pt.TealType.uint64, sid), pt.ScratchVar(pt.TealType.uint64, sid)
            if kind == "duplicate_shared":
                @pt.Subroutine(pt.TealType.uint64)
                def rd():
                    return a.load() * I(1000) + b.load()
                prog = pt.Seq(a.store(I(1)), b.store(I(2)), rd())
            else:
                @pt.Subroutine(pt.TealType.uint64)
                def own():
                    return pt.Seq(b.store(I(2)), b.load())
                prog = pt.Seq(a.store(I(1)), own() + a.load())
        else:
            sid = rng.choice([256, 257, 1000, -1])
            a = pt.ScratchVar(pt.TealType.uint64, sid)
            prog = pt.Seq(a.store(I(1)), a.load())
        pt.compileTeal(prog, pt.Mode.Application, version=rng.choice([5, 6, 8, 10]))
    except PT_ERRORS:
        acc.counters["over_256_rejected" if kind.startswith("over") else "duplicate_id_rejected" if kind.startswith("dup") else "bad_id_rejected"] += 1
        return
    except RecursionError:
        acc.counters["dropped_recursion"] += 1
        return
    except Exception as e:
        acc.counters["must_reject_foreign_exception:" + type(e).__name__] += 1  # C20's subject
        return
    acc.violation("aliasing_program_accepted", case, "%s: compiled instead of being rejected" % kind)


def run_shard(shard):
    import pyteal as pt
    from ..common import Acc, rng_for
    acc = Acc()
    if "replay" in shard:
        c = shard["replay"]
        if "probe" in c:
            must_reject(pt, acc, rng_for(0, "replay"), c["probe"])
        else:
            check_case(pt, acc, c)
        return acc.result()
    rng = rng_for(shard["seed"], "c10", shard["shard"])
    for kind in KINDS:
        must_reject(pt, acc, rng, kind)
    shared_opts = {}
    for i in range(shard["n"]):
        check_case(pt, acc, gen_case(rng, big=(i % 9 == 8)), shared_opts)
        if i % 3 == 0:
            must_reject(pt, acc, rng)
    return acc.result()


MANIFEST_ENTRY = {
    "technique": "runtime monitor: unique markers written to and read back from every variable of generated many-variable programs executed on the reference AVM; final scratch array and run-time index() observed",
    "text": ("Generated programs keep up to 256 variables of every kind live at once (automatic and explicitly numbered ScratchVars, "
             "DynamicScratchVar aliases, ABI values in main and in recursive subroutines incl. more than 128 frame locals, MaybeValue "
             "temporaries), write a unique marker to each, overwrite, call, and read everything back in a different order into a hash chain "
             "that is compared with the chain over the markers; the final scratch array must hold every marker in exactly one slot, explicit "
             "ids must be the slots used and what index() returns at run time. Programs over 256 slots or with duplicate ids must be "
             "rejected. Held = held on the programs listed."),
    "note": "Trusted: vlib/avm.py. Workers raise the recursion limit (long programs), as C20 owns the default-limit behaviour.",
}
