"""C20 - compilation is total: TEAL or a PyTeal error, never a crash; well-formed programs are accepted.

Monitor: the real entry points (compileTeal, Compilation.compile, Router.compile_program) are driven, UNDER THE INTERPRETER'S
DEFAULT RECURSION LIMIT, with every small control skeleton in main and inside a subroutine, degenerate shapes, random well-formed
recipes under every option setting, the constructor catalogue at every version and mode, and length / nesting ladders.  The
exception taxonomy is observed at the entry point: anything that is not one of PyTeal's five error classes is a violation; a
well-formed recipe (typed, definitely assigned, documented minimum version <= target) that is rejected is a violation too.
"""
from .. import recipes

DEFAULT_RECURSION = True  # hitting the interpreter's default limit is part of this property

SPEC = {
    "level": "exploration",
    "rule": ("(1) every control skeleton up to N nodes (quick 5, thorough 6) over {Seq, If, If/Else, Cond, While, For, Break, Continue, Return, "
             "effect} in the main routine and inside a subroutine, versions 2..10 rotating, both modes, all option settings; (2) ~60 degenerate "
             "shapes (loop first, loops of only Break/Continue, empty Seq/branches everywhere, Return-only routines, nested empty loops); "
             "(3) random well-formed recipes at versions >= their documented minimum under scratch_slots x frame_pointers settings; (4) the "
             "constructor catalogue x versions 2..10 x modes (with and without assembleConstants); (5) ladders: 50..5000 statements, "
             "nesting 5..300 of Seq/While/binary operators, Router with many methods.  An evaluation is one compilation attempt whose outcome "
             "class (TEAL / PyTeal error / foreign exception) is observed at the entry point; non-trivial = distinct program shapes "
             "(hash of recipe or ladder parameters) that contain at least one loop or conditional."),
    "assumptions": ["documented minimum versions per construct (vlib/recipes.min_version)", "recipes from vlib/recipes.Gen are typed and definitely assigned by construction"],
    "min_evaluations": {"quick": 8000, "thorough": 80000},
    "must_reach": ["emitted", "pt_error", "skeleton_main", "skeleton_sub", "placement_main", "placement_sub", "placement_illformed", "router", "degenerate", "random_wellformed", "catalogue", "ladder", "constants"],
    "shard_timeout": {"quick": 2400, "thorough": 14400},
}

KNOWN_REC = "C20-recursion-depth-long-routine"
LADDER_KNOWN_MIN = 150  # a RecursionError is attributed to the known finding only at or above this size/nesting parameter


def plan(tier, seed):
    n = 16 if tier == "quick" else 64
    return [{"seed": seed, "shard": i, "nshards": n, "tier": tier, "skel_nodes": 5 if tier == "quick" else 6,
             "random": 150 if tier == "quick" else 1500} for i in range(n)]


def outcome(acc, tag, case, fn, wellformed=False, size=None):
    """Run one compilation attempt and classify what came out of the entry point."""
    from ..common import PT_ERRORS, reset_globals
    reset_globals()
    acc.evaluations += 1
    acc.counters[tag] += 1
    try:
        r = fn()
    except PT_ERRORS as e:
        acc.counters["pt_error"] += 1
        acc.counters["pt_error:" + type(e).__name__] += 1
        if wellformed:
            acc.violation("wellformed_rejected", case, "%s: %s" % (type(e).__name__, str(e)[:400]))
        return None
    except RecursionError as e:
        acc.violation("foreign_exception", dict(case, exception="RecursionError", size=size), "RecursionError escaped the compiler (default recursion limit)")
        return None
    except Exception as e:
        import traceback
        tb = traceback.extract_tb(e.__traceback__)
        where = next(("%s:%d" % (f.filename.split("/pyteal/")[-1], f.lineno) for f in reversed(tb) if "/pyteal/" in f.filename), "?")
        acc.violation("foreign_exception", dict(case, exception=type(e).__name__), "%s: %s (innermost pyteal frame %s)" % (type(e).__name__, str(e)[:300], where))
        return None
    acc.counters["emitted"] += 1
    if case.get("kind") in ("skeleton", "degenerate", "ladder") and acc.counters["emitted"] % 97 == 0:
        acc.sample({k: (str(v)[:300] if k == "recipe" else v) for k, v in case.items()} | {"outcome": "TEAL, %d lines" % (str(r).count("\n") + 1)}, cap=3)
    return r


def compile_fn(pt, make, mode, version, ss=None, fp=None, assemble=False, api="compileTeal"):
    def fn():
        prog = make()
        opt = pt.OptimizeOptions(scratch_slots=ss, frame_pointers=fp) if (ss is not None or fp is not None) else None
        m = pt.Mode.Application if mode == "app" else pt.Mode.Signature
        if api == "Compilation":
            return pt.Compilation(prog, m, version=version, assemble_constants=assemble, optimize=opt).compile().teal
        return pt.compileTeal(prog, m, version=version, assembleConstants=assemble, optimize=opt)
    return fn


def into_sub(recipe):
    """Move the main body of a skeleton recipe into a subroutine (the statement kinds then sit first/middle/last in a routine
    that ends with retsub instead of return)."""
    r = recipe
    sub = {"name": "sk", "params": [{"k": "u"}], "ret": "u", "rec": False,
           "locals": [dict(v) for v in r["vars"]], "body": r["main"], "retexpr": ["bin", "+", ["load", "x"], ["param", 0]]}
    return {"mode": r["mode"], "vars": [], "subs": [sub], "main": [["pop", ["call", 0, [["int", 2]]]]], "final": ["int", 1]}


def degenerate_shapes():
    """Recipes for shapes at the edges: loops first, loops of only Break/Continue, empty Seqs and branches everywhere."""
    E = ["nop"]
    L = ["log", ["bytes", "78"]]
    C = ["bin", "<", ["btoi", ["txna", "ApplicationArgs", 0]], ["int", 3]]
    shapes = []

    def add(main, vars_=None):
        shapes.append({"mode": "app", "vars": vars_ or [], "subs": [], "main": main, "final": ["int", 1]})
    loops = [lambda b: ["while", C, b], lambda b: ["for", E, C, E, b], lambda b: ["for", ["seq", []], C, ["seq", []], b]]
    bodies = [E, ["seq", []], ["break"], ["continue"], ["seq", [["break"]]], ["seq", [["continue"]]], ["if", C, ["break"], None], ["if", C, ["continue"], ["break"]],
              ["if", C, E, None], ["if", C, E, E], ["if", C, ["seq", []], ["seq", []]], ["seq", [["if", C, E, None], ["break"]]], ["seq", [E, E]],
              ["cond", [[C, ["break"]], [["int", 1], ["continue"]]]], ["cond", [[C, E]]], ["ifchain", [[C, E], [C, E]], None], ["ifchain", [[C, ["break"]], [C, E]], E]]
    for mk in loops:
        for b in bodies:
            add([mk(b)])             # loop is the first statement
            add([mk(b), L])          # followed by something
            add([L, mk(b)])          # loop last
            add([mk(mk(b))])         # nested directly
    add([])
    add([E])
    add([["seq", []], ["seq", [["seq", []]]]])
    add([["if", C, E, None]])
    add([["if", C, ["seq", []], ["seq", []]], ["if", C, E, E]])
    add([["if", C, ["return", ["int", 1]], ["return", ["int", 0]]]])
    add([["return", ["int", 1]]])
    add([["approve"]])
    add([["reject"]])
    add([["err"]])
    add([["cond", [[C, ["approve"]], [["int", 1], ["reject"]]]]])
    add([["cond", [[C, E]]], ["cond", [[C, E], [C, E]]]])
    add([["ifchain", [[C, E], [C, E], [C, E]], None]])
    add([["assert", [C]], ["assert", [C, C, C]]])
    # blocks that end with a store followed only by comments (arm of a conditional, end of a loop body, end of the program), and
    # comments in every other position around a store/load pair
    V = [{"id": "v", "t": "u", "kind": "sv", "slot": None}]
    K = ["comment", "note", None]
    S, Ld = ["store", "v", ["int", 5]], ["pop", ["load", "v"]]
    for tail in ([S, K], [S, K, K], [K, S], [S, K, Ld], [S, K, K, Ld], [S, Ld, K]):
        add([["if", C, ["seq", tail], None], S, Ld], V)
        add([["while", C, ["seq", tail + [["break"]]]], S, Ld], V)
        add([["while", C, ["seq", [["if", C, ["break"], None]] + tail]], S, Ld], V)
        add([S, Ld] + tail, V)
    return shapes


def ladder_cases(pt, tier):
    """(name, parameter, make) for the size and nesting ladders."""
    I = pt.Int
    out = []
    sizes = [50, 100, 150, 200, 300, 490, 600, 1000, 2000] + ([5000] if tier == "thorough" else [])
    for n in sizes:
        out.append(("straight_line", n, lambda n=n: pt.Seq(*[pt.Pop(I(i)) for i in range(n)], I(1))))
        out.append(("sequential_ifs", n, lambda n=n: pt.Seq(*[pt.If(I(i)).Then(pt.Pop(I(i))) for i in range(n)], I(1))))
        out.append(("sequential_loops", n // 5, lambda n=n: pt.Seq(*[pt.While(I(0)).Do(pt.Pop(I(i))) for i in range(n // 5)], I(1))))
        out.append(("wide_add", n, lambda n=n: pt.Add(*[I(i) for i in range(n)])))
        out.append(("wide_concat", n, lambda n=n: pt.Len(pt.Concat(*[pt.Bytes("a") for _ in range(n)]))))

        def many_vars(n=n):
            vs = [pt.ScratchVar(pt.TealType.uint64) for _ in range(min(n, 250))]
            return pt.Seq(*[v.store(I(i)) for i, v in enumerate(vs)], pt.Add(*[v.load() for v in vs]))
        out.append(("many_vars", min(n, 250), many_vars))
    # programs that use exactly / almost all 256 slots with r explicitly requested ids: within the limit, so they must compile
    for total, r in [(256, 1), (256, 6), (256, 128), (255, 3), (250, 20), (129, 128), (256, 256), (200, 100)]:
        def mixed(total=total, r=r):
            ids = list(range(0, 2 * r, 2))[:r] if r <= 128 else list(range(r))
            vs = [pt.ScratchVar(pt.TealType.uint64, i) for i in ids] + [pt.ScratchVar(pt.TealType.uint64) for _ in range(total - r)]
            half = len(vs) // 2

            @pt.Subroutine(pt.TealType.uint64)
            def tail():
                return pt.Seq(*[v.store(I(7)) for v in vs[half:]], pt.Add(I(0), I(0), *[v.load() for v in vs[half:]]))
            return pt.Seq(*[v.store(I(i)) for i, v in enumerate(vs[:half])], pt.Add(I(0), I(0), *[v.load() for v in vs[:half]]) + tail())
        out.append(("slots_within_limit", total * 1000 + r, mixed))
    for d in [5, 10, 14, 20, 40, 80, 150, 300]:
        def nest_seq(d=d):
            e = pt.Pop(I(0))
            for i in range(d):
                e = pt.Seq(pt.Pop(I(i)), e)
            return pt.Seq(e, I(1))

        def nest_add(d=d):
            e = I(0)
            for i in range(d):
                e = e + I(i)
            return e

        def nest_while(d=d):
            e = pt.Break()
            for i in range(d):
                e = pt.While(I(1)).Do(pt.Seq(e, pt.Break()))
            return pt.Seq(e, I(1))

        def nest_ifelse(d=d):
            e = I(0)
            for i in range(d):
                e = pt.If(I(i)).Then(e).Else(I(i))
            return e

        def nest_call(d=d):
            fs = []
            for i in range(d):
                def body(x, i=None):
                    return x
                prev = fs[-1] if fs else None

                def mk(prev=prev, i=i):
                    def f(x):
                        return (prev(x) + I(i)) if prev is not None else x
                    f.__name__ = "f%d" % i
                    return pt.Subroutine(pt.TealType.uint64)(f)
                fs.append(mk())
            return fs[-1](I(1))
        out.append(("nest_seq", d, nest_seq))
        out.append(("nest_add", d, nest_add))
        out.append(("nest_while", d, nest_while))
        if d <= 14:
            out.append(("nest_ifelse", d, nest_ifelse))  # deeper If nesting takes exponential time (performance, not totality)
        if d <= 150:
            out.append(("nest_call", d, nest_call))
    return out


def run_shard(shard):
    import pyteal as pt
    from .. import build, opcatalog
    from ..common import Acc, h, rng_for
    acc = Acc()
    if "replay" in shard:
        return replay(pt, acc, shard["replay"])
    rng = rng_for(shard["seed"], "c20", shard["shard"])
    S, N = shard["shard"], shard["nshards"]
    settings = [(None, None), (False, False), (True, False), (True, None), (False, True), (True, True)]
    # ---- (1) skeletons, main and subroutine
    idx = 0
    for n in range(1, shard["skel_nodes"] + 1):
        for sk in recipes.skeletons(n):
            idx += 1
            if idx % N != S:
                continue
            mode = "sig" if idx % 4 == 0 else "app"
            v = [2, 3, 4, 5, 6, 7, 8, 9, 10][(idx // N) % 9]
            ss, fp = settings[(idx // N) % len(settings)]
            if fp and v < 8:
                fp = None
            base = recipes.instantiate(sk, mode=mode, version=v)
            for where in ("main", "sub"):
                r = base if where == "main" else into_sub(base)
                vv = max(v, 4) if where == "sub" else v
                case = {"kind": "skeleton", "where": where, "recipe": r, "version": vv, "mode": mode, "opts": [ss, fp]}
                outcome(acc, "skeleton_" + where, case, compile_fn(pt, lambda r=r: build.build(r), mode, vv, ss, fp), wellformed=True)
                acc.nontrivial.add(h(r))
    # ---- (1b) first stores on one arm of a conditional whose other arm leaves the routine, loads after the join (and every other
    # placement of a store and a load over the small skeletons): when every path to every load passes a store and the program has
    # no dead code, it is well-formed and has to compile - in the main routine and inside a subroutine
    import itertools
    from .. import defassign
    from . import c17
    idx = 0
    for n in range(1, 6):
        for sk in recipes.skeletons(n):
            nl, nc = c17.count_slots(sk)
            if nl < 2:
                continue
            alphabet = ["S0", "L0", "N"] if nl > 3 else ["S0", "L0", "S1", "L1", "N"]
            for leaves in itertools.product(alphabet, repeat=nl):
                if not any(x.startswith("L") for x in leaves) or not any(x.startswith("S") for x in leaves):
                    continue
                idx += 1
                if idx % N != S:
                    continue
                two = any(x in ("S1", "L1") for x in leaves)
                body, nctr = c17.place(sk, [c17.LEAF[x] for x in leaves], [c17.cond_expr("C", "app")] * nc, "app")
                for where in ("main", "sub"):
                    r = c17.make_recipe(body, nctr, "app", where, two)
                    an = defassign.Analysis(r)
                    flagged = an.run()
                    if flagged:
                        # ill-formed (a read before any write on some path): whatever the compiler says, it says it with one of its
                        # own error types - also when several offending loads, or one load with several histories, are found
                        vv = [4, 6, 8, 10][(idx // N) % 4]
                        case = {"kind": "placement_illformed", "where": where, "recipe": r, "version": vv, "mode": "app", "opts": [False, None]}
                        outcome(acc, "placement_illformed", case, compile_fn(pt, lambda r=r: build.build(r), "app", vv, False, None), wellformed=False)
                        continue
                    if an.has_dead_code:
                        acc.counters["placement_not_wellformed"] += 1
                        continue
                    vv = [4, 6, 8, 10][(idx // N) % 4]
                    ss, fp = settings[(idx // N) % len(settings)]
                    if fp and vv < 8:
                        fp = None
                    case = {"kind": "placement", "where": where, "recipe": r, "version": vv, "mode": "app", "opts": [ss, fp]}
                    outcome(acc, "placement_" + where, case, compile_fn(pt, lambda r=r: build.build(r), "app", vv, ss, fp), wellformed=True)
    # ---- (1c) routers around the 15-argument boundary
    k = 0
    for nargs in (0, 1, 14, 15, 16, 17, 20):
        for void in (True, False):
            for v in (6, 7, 8, 9, 10):
                for fp in (None, False) if v >= 8 else (None,):
                    for ntxn in (0, 1):
                        k += 1
                        if k % N != S:
                            continue
                        router_totality(pt, acc, {"kind": "router", "nargs": nargs, "void": void, "version": v, "fp": fp, "ntxn": ntxn})
    # ---- (2) degenerate shapes
    for k, r in enumerate(degenerate_shapes()):
        if k % N != S:
            continue
        for v in (2, 4, 6, 8, 9, 10):
            for where in ("main", "sub"):
                if where == "sub":
                    if v < 4:
                        continue
                    rr = {"mode": "app", "vars": [], "main": [["callstmt", 0, []]], "final": ["int", 1],
                          "subs": [{"name": "d", "params": [], "ret": "n", "rec": False, "locals": r.get("vars", []), "body": r["main"], "retexpr": None}]}
                else:
                    rr = r
                if any(n[0] == "log" for n in recipes.all_nodes(rr)) and v < 5:
                    continue
                if where == "sub" and any(n[0] in ("return",) and n[1] is not None for n in recipes.all_nodes(rr)):
                    continue
                ss, fp = settings[(k + v) % len(settings)]
                if fp and v < 8:
                    fp = None
                case = {"kind": "degenerate", "where": where, "recipe": rr, "version": v, "mode": "app", "opts": [ss, fp]}
                outcome(acc, "degenerate", case, compile_fn(pt, lambda rr=rr: build.build(rr), "app", v, ss, fp), wellformed=True)
                acc.nontrivial.add(h(rr))
    # ---- (3) random well-formed recipes
    from . import c02, c03
    for i in range(shard["random"]):
        vgen = rng.choice([2, 3, 4, 5, 6, 7, 8, 9, 10])
        mode = "sig" if rng.random() < .25 else "app"
        r0 = rng.random()
        try:
            if r0 < .7 or mode == "sig":
                r = recipes.Gen(rng, version=vgen, mode=mode, min_subs=rng.choice([0, 0, 1])).program()
            elif r0 < .85:
                r = c02.mutual_family(rng)
            else:
                r = c03.opt_family(rng, vgen)
        except RecursionError:
            continue
        lo = recipes.min_version(r)
        if any(n[0] == "log" for n in recipes.all_nodes(r)):
            lo = max(lo, 5)
        v = rng.choice(list(range(max(lo, 2), 11)))
        ss, fp = rng.choice(settings)
        if fp and v < 8:
            fp = None
        case = {"kind": "random", "recipe": r, "version": v, "mode": mode, "opts": [ss, fp]}
        api = "Compilation" if i % 3 == 0 else "compileTeal"
        outcome(acc, "random_wellformed", case, compile_fn(pt, lambda r=r: build.build(r), mode, v, ss, fp, assemble=(i % 5 == 0 and v >= 3), api=api), wellformed=True)
        if any(n[0] in ("if", "while", "for", "cond", "ifchain") for n in recipes.all_nodes(r)):
            acc.nontrivial.add(h(r))
    # ---- (3b) constant mixes under assembleConstants (templates, enums, many repeated constants)
    from . import c12
    for i in range(shard["random"] // 4):
        consts = c12.gen_consts(rng, rng.choice([2, 6, 12, 30]))
        v = rng.choice([3, 5, 6, 8, 10])
        case = {"kind": "constants", "consts": consts, "version": v}
        outcome(acc, "constants", case, compile_fn(pt, lambda consts=consts, v=v: c12.build(pt, consts, v), "app", v, assemble=True))
    # ---- (4) catalogue
    k = 0
    for ent in opcatalog.entries(pt):
        for v in range(2, 11):
            for mode in ("app", "sig"):
                k += 1
                if k % N != S:
                    continue
                case = {"kind": "catalogue", "entry": ent[0], "version": v, "mode": mode}
                outcome(acc, "catalogue", case, compile_fn(pt, lambda ent=ent: opcatalog.wrap(pt, ent), mode, v, assemble=(k % 4 == 0)))
    # ---- (5) ladders
    for j, (name, param, make) in enumerate(ladder_cases(pt, shard["tier"])):
        if j % N != S:
            continue
        for v in (6, 10):
            case = {"kind": "ladder", "ladder": name, "param": param, "version": v}
            outcome(acc, "ladder", case, compile_fn(pt, make, "app", v), wellformed=(name == "slots_within_limit"), size=param if name != "slots_within_limit" else None)
    return acc.result()


def router_totality(pt, acc, c):
    """Router.compile_program over method arities around the 15-argument packing boundary, void and value-returning, under both
    conventions: TEAL or a PyTeal error."""
    n, void, v, fp, ntxn = c["nargs"], c["void"], c["version"], c["fp"], c.get("ntxn", 0)

    def fn():
        kinds = [pt.abi.Uint64, pt.abi.String, pt.abi.Bool, pt.abi.Uint8, pt.abi.Address]
        names = ["a%d" % i for i in range(n)] + ["t%d" % i for i in range(ntxn)]
        src = "def m(%s):\n    return %s\n" % (", ".join(names + ([] if void else ["*", "output"])),
                                                  "output.set(%s)" % ("a0.get()" if n else "pt.Int(7)") if not void else "pt.Log(pt.Bytes('v'))")
        ns = {"pt": pt}
        exec(src, ns)
        f = ns["m"]
        f.__annotations__ = {("a%d" % i): kinds[i % len(kinds)] if i else pt.abi.Uint64 for i in range(n)}
        f.__annotations__.update({("t%d" % i): pt.abi.PaymentTransaction for i in range(ntxn)})
        if not void:
            f.__annotations__["output"] = pt.abi.Uint64
        r = pt.Router("t", pt.BareCallActions(no_op=pt.OnCompleteAction.create_only(pt.Approve())), clear_state=pt.Approve())
        r.add_method_handler(pt.ABIReturnSubroutine(f))
        opt = None if fp is None else pt.OptimizeOptions(frame_pointers=fp)
        return r.compile_program(version=v, optimize=opt)[0]
    outcome(acc, "router", c, fn)


def replay(pt, acc, c):
    from .. import build, opcatalog
    if c.get("kind") == "placement_illformed":
        ss, fp = c.get("opts", [None, None])
        outcome(acc, "replay", c, compile_fn(pt, lambda: build.build(c["recipe"]), c["mode"], c["version"], ss, fp), wellformed=False)
    elif c.get("kind") == "router":
        router_totality(pt, acc, c)
    elif c.get("kind") in ("skeleton", "degenerate", "random", "placement"):
        ss, fp = c.get("opts", [None, None])
        outcome(acc, "replay", c, compile_fn(pt, lambda: build.build(c["recipe"]), c["mode"], c["version"], ss, fp), wellformed=True)
    elif c.get("kind") == "catalogue":
        ent = next(e for e in opcatalog.entries(pt) if e[0] == c["entry"])
        outcome(acc, "replay", c, compile_fn(pt, lambda: opcatalog.wrap(pt, ent), c["mode"], c["version"]))
    elif c.get("kind") == "ladder":
        for name, param, make in ladder_cases(pt, "thorough"):
            if name == c["ladder"] and param == c["param"]:
                outcome(acc, "replay", c, compile_fn(pt, make, "app", c["version"]), size=param)
                break
    return acc.result()


def classify(v):
    case = v.get("case") or {}
    if (v.get("kind") == "foreign_exception" and case.get("exception") == "RecursionError" and case.get("kind") == "ladder"
            and isinstance(case.get("size"), int) and case["size"] >= LADDER_KNOWN_MIN):
        return KNOWN_REC
    return None


MANIFEST_ENTRY = {
    "technique": "runtime monitor on the exception taxonomy of the real compiler entry points under the default recursion limit, driven by exhaustive small control skeletons, degenerate shapes, random well-formed recipes, the constructor catalogue and size/nesting ladders",
    "text": ("Every control skeleton up to a node bound (in the main routine and inside a subroutine), ~270 degenerate shapes, thousands of "
             "random well-formed recipes under every option setting, every catalogue constructor at every version and mode, and size / "
             "nesting ladders are compiled through compileTeal and Compilation.compile under the interpreter's default recursion limit; the "
             "class of what leaves the entry point is observed: a foreign exception is a violation, and so is the rejection of a recipe that "
             "is typed, definitely assigned and targets a version at or above its documented minimum. Exhaustive over the enumerated "
             "skeletons, exploration beyond. Ill-formed store/load placements must end in PyTeal errors, well-formed ones (no dead code) must compile, Router.compile_program is driven across the 15-argument packing boundary, and blocks ending in a store followed by comments are part of the degenerate shapes."),
    "note": "Known finding: RecursionError for routines of several hundred statements / nesting levels (attributed only to ladder cases at or above a size threshold).",
}
