"""C14 - inner method calls are marshalled per ARC-4.

Monitor: programs that issue InnerTxnBuilder.MethodCall / ExecuteMethodCall for generated signatures and argument values are
compiled by the real compiler and executed on the reference AVM, which records the inner transaction group field by field.  The
recorded group is then decoded *as an ARC-4 callee would* - selector, plain arguments by the signature's types (algosdk codec,
de-tupling beyond 15), reference arguments through the foreign arrays, transaction arguments = the preceding inner transactions -
and compared with the arguments that were given.  Arguments whose type does not fit the signature must be rejected when the
expression is built.
"""
from .. import abigen, avm

SPEC = {
    "level": "exploration",
    "rule": ("signatures with 0..18 arguments: plain ABI types (random shapes to depth 2, boundary shapes), account/asset/application "
             "references, transaction arguments (pay, axfer, appl, acfg, txn) in any order; plain arguments given as ABI instances or as "
             "pre-encoded byte expressions, references as expressions (address / id), "
             "transactions as field dictionaries; extra_fields with and without foreign-array fields; MethodCall inside Begin/Submit and "
             "ExecuteMethodCall; versions 6..10.  Must-reject probes: wrong ABI type (width, arity, element type), wrong transaction type, "
             "wrong argument count, non-dict transaction.  An evaluation is one executed call decoded callee-side or one must-reject "
             "attempt; non-trivial = calls with at least one reference or transaction argument."),
    "assumptions": ["algosdk.abi codec as the callee's decoder", "vlib/avm.py itxn_begin/itxn_field/itxn_next/itxn_submit recording"],
    "min_evaluations": {"quick": 1500, "thorough": 15000},
    "must_reach": ["call_ok", "ref_args", "txn_args", "extra_foreign_fields", "mistyped_rejected", "preencoded_args", "execute_form", "builder_form"],
    "shard_timeout": {"quick": 2400, "thorough": 14400},
}

KNOWN15 = "C14-more-than-15-arguments"
TXK = {"pay": 1, "axfer": 4, "appl": 6, "acfg": 3, "afrz": 5, "keyreg": 2, "txn": None}
ODD_WIDTHS = {"uint24": 32, "uint40": 64, "uint48": 64, "uint56": 64}  # ARC-4 widths PyTeal has no type for -> the next wider PyTeal uint


def plan(tier, seed):
    n = 16 if tier == "quick" else 64
    return [{"seed": seed, "shard": i, "nshards": n, "tier": tier, "n": 110 if tier == "quick" else 700} for i in range(n)]


def gen_call(rng, allow_over15=False):
    n = rng.choice([0, 1, 2, 3, 4, 6, 9, 13, 14, 15] + ([16, 17, 18] if allow_over15 else []))
    kinds = []
    nref = {"account": 0, "asset": 0, "application": 0}
    for i in range(n):
        k = rng.random()
        if k < .12 and sum(1 for x in kinds if x in TXK) < 3:
            kinds.append(rng.choice(list(TXK)))
        elif k < .3:
            r = rng.choice(["account", "asset", "application"])
            if nref[r] < 3:
                nref[r] += 1
                kinds.append(r)
            else:
                kinds.append("uint64")
        elif k < .55:
            kinds.append(abigen.rand_type(rng, maxdepth=2))
        elif k < .6:
            kinds.append(abigen.boundary_shape(rng) if rng.random() < .4 else "(string,bool,bool,bool,bool,bool,bool,bool,bool,string)")
        else:
            kinds.append(rng.choice(["uint64", "bool", "string", "uint8", "address", "byte[]", "uint16", "(uint64,string)", "bool[3]"] + (list(ODD_WIDTHS) if rng.random() < .15 else [])))
    extra = {}
    if rng.random() < .6:
        extra["Fee"] = 0
    if rng.random() < .4:
        extra["Note"] = "6e6f7465"
    if rng.random() < .35:
        which = rng.sample(["Accounts", "Assets", "Applications"], rng.choice([1, 1, 2]))
        for w in which:
            extra[w] = [rng.randrange(2000, 3000) for _ in range(rng.choice([1, 2]))]
    return {"kinds": kinds, "ret": rng.choice(["void", "uint64", "string"]), "extra": extra, "form": rng.choice(["execute", "builder"]),
            "version": rng.choice([6, 7, 8, 9, 10]), "vseed": rng.randrange(10**9), "app_id": rng.choice([5, 77, 123456])}


def build_call(pt, case):
    """Returns (program, description of what was given)."""
    import random
    from algosdk import abi as sabi
    rng = random.Random(case["vseed"])
    kinds = case["kinds"]
    sig = "callee(%s)%s" % (",".join(kinds), case["ret"])
    pre, args, given = [], [], []
    for i, k in enumerate(kinds):
        if k in TXK:
            te = TXK[k] or rng.choice([1, 4])
            tenum = {1: pt.TxnType.Payment, 4: pt.TxnType.AssetTransfer, 6: pt.TxnType.ApplicationCall, 3: pt.TxnType.AssetConfig,
                     5: pt.TxnType.AssetFreeze, 2: pt.TxnType.KeyRegistration}[te]
            amt = rng.randrange(1, 1000)
            d = {pt.TxnField.type_enum: tenum, pt.TxnField.fee: pt.Int(0)}
            exp = {"TypeEnum": te, "Fee": 0}
            if te == 1:
                d[pt.TxnField.amount] = pt.Int(amt)
                d[pt.TxnField.receiver] = pt.Txn.sender()
                exp.update(Amount=amt, Receiver=b"\x53" * 32)
            elif te == 4:
                d[pt.TxnField.asset_amount] = pt.Int(amt)
                d[pt.TxnField.xfer_asset] = pt.Int(7)
                exp.update(AssetAmount=amt, XferAsset=7)
            elif te == 6:
                d[pt.TxnField.application_id] = pt.Int(amt)
                exp.update(ApplicationID=amt)
            elif te == 5:
                d[pt.TxnField.freeze_asset] = pt.Int(amt)
                d[pt.TxnField.freeze_asset_frozen] = pt.Int(1)
                exp.update(FreezeAsset=amt, FreezeAssetFrozen=1)
            elif te == 2:
                d[pt.TxnField.vote_first] = pt.Int(amt)
                exp.update(VoteFirst=amt)
            else:
                d[pt.TxnField.config_asset_total] = pt.Int(amt)
                exp.update(ConfigAssetTotal=amt)
            args.append(d)
            given.append(("txn", exp))
        elif k == "account":
            a = bytes([rng.randrange(1, 250)]) * 32
            args.append(pt.Bytes(a))
            given.append(("account", a))
        elif k == "asset":
            a = rng.randrange(1, 1000)
            args.append(pt.Int(a) if rng.random() < .5 else pt.Btoi(pt.Itob(pt.Int(a))))
            given.append(("asset", a))
        elif k == "application":
            if rng.random() < .25:
                # "call me back": the caller's own id; the callee must resolve the reference to the caller (77 in the reference AVM)
                args.append(pt.Global.current_application_id())
                given.append(("application", 77))
            else:
                a = rng.randrange(1000, 2000)
                args.append(pt.Int(a))
                given.append(("application", a))
        elif k in ODD_WIDTHS:
            # a width ARC-4 has and PyTeal does not: the value is given in the next wider PyTeal uint; the call is refused, or
            # else the callee must find the value in exactly width/8 bytes
            st = sabi.ABIType.from_string(k)
            v = rng.choice([0, 1, 2 ** (int(k[4:]) - 1), 2 ** int(k[4:]) - 1, rng.randrange(2 ** int(k[4:]))])
            inst = abigen.spec_of(pt, sabi.ABIType.from_string("uint%d" % ODD_WIDTHS[k])).new_instance()
            pre.append(inst.set(v))
            args.append(inst)
            given.append(("plain", st.encode(v)))
        else:
            st = sabi.ABIType.from_string(k)
            v = abigen.rand_val(rng, st)
            enc = st.encode(v)
            if rng.random() < .3 or len(enc) > 900:
                args.append(pt.Bytes(enc))
                given.append(("plain_pre", enc))
            else:
                spec = abigen.spec_of(pt, st)
                inst = spec.new_instance()
                pre += abigen.build_set(pt, spec, st, v, inst, rng)
                args.append(inst)
                given.append(("plain", enc))
    F = pt.TxnField
    extra = {}
    for f, v in case["extra"].items():
        if f == "Fee":
            extra[F.fee] = pt.Int(v)
        elif f == "Note":
            extra[F.note] = pt.Bytes(bytes.fromhex(v))
        elif f == "Accounts":
            extra[F.accounts] = [pt.Bytes(bytes([x % 250 + 1]) * 32) for x in v]
        elif f == "Assets":
            extra[F.assets] = [pt.Int(x) for x in v]
        elif f == "Applications":
            extra[F.applications] = [pt.Int(x) for x in v]
    kw = dict(app_id=pt.Int(case["app_id"]), method_signature=sig, args=args, extra_fields=extra or None)
    if case["form"] == "execute":
        call = pt.InnerTxnBuilder.ExecuteMethodCall(**kw)
    else:
        call = pt.Seq(pt.InnerTxnBuilder.Begin(), pt.InnerTxnBuilder.MethodCall(**kw), pt.InnerTxnBuilder.Submit())
    return pt.Seq(*pre, call, pt.Int(1)), sig, given


def callee_view(group, sig, kinds):
    """Decode the recorded inner group as the callee would.  Returns (list of decoded args in order, problems)."""
    from algosdk import abi as sabi
    problems = []
    call = group[-1]
    if call.get("TypeEnum") != 6:
        problems.append("last inner transaction is not an application call (TypeEnum %r)" % call.get("TypeEnum"))
    aargs = list(call.get("ApplicationArgs", []))
    if not aargs or aargs[0] != avm.method_selector('"%s"' % sig):
        problems.append("first application argument %r is not the selector of %s" % (aargs[:1], sig))
        return [], problems
    nontx = [k for k in kinds if k not in TXK]
    types = ["uint8" if k in ("account", "asset", "application") else k for k in nontx]
    vals = aargs[1:]
    decoded = []
    if len(types) > 15:
        if len(vals) != 15:
            problems.append("%d plain/reference arguments but %d application arguments after the selector (the 15th and later must be packed into one tuple)" % (len(types), len(vals)))
            return [], problems
        tup = sabi.TupleType([sabi.ABIType.from_string(t) for t in types[14:]])
        try:
            last = tup.decode(vals[14])
            packed = [sabi.ABIType.from_string(t).encode(x) for t, x in zip(types[14:], last)]
        except Exception as e:
            problems.append("packed tuple does not decode: %s" % e)
            return [], problems
        vals = vals[:14] + packed
    elif len(vals) != len(types):
        problems.append("%d plain/reference arguments but %d application arguments after the selector" % (len(types), len(vals)))
        return [], problems
    txs = group[:-1]
    ntx = sum(1 for k in kinds if k in TXK)
    if len(txs) != ntx:
        problems.append("%d transaction arguments but %d transactions precede the call in the inner group" % (ntx, len(txs)))
        return [], problems
    vi = ti = 0
    for k in kinds:
        if k in TXK:
            decoded.append(("txn", txs[ti]))
            ti += 1
            continue
        raw = vals[vi]
        vi += 1
        if k in ("account", "asset", "application"):
            if len(raw) != 1:
                problems.append("reference argument encoded in %d bytes" % len(raw))
                decoded.append((k, None))
                continue
            idx = raw[0]
            if k == "account":
                arr = call.get("Accounts", [])
                decoded.append((k, "sender" if idx == 0 else (arr[idx - 1] if idx - 1 < len(arr) else None)))
            elif k == "application":
                arr = call.get("Applications", [])
                decoded.append((k, call.get("ApplicationID") if idx == 0 else (arr[idx - 1] if idx - 1 < len(arr) else None)))
            else:
                arr = call.get("Assets", [])
                decoded.append((k, arr[idx] if idx < len(arr) else None))
        else:
            decoded.append(("plain", raw))
    return decoded, problems


def check_call(pt, acc, case):
    from ..common import PT_ERRORS, h, reset_globals
    reset_globals()
    kinds = case["kinds"]
    nplain = sum(1 for k in kinds if k not in TXK)
    try:
        prog, sig, given = build_call(pt, case)
        # (every third call program is compiled with assembled constants: selectors, type enums and field values move into blocks)
        teal = pt.compileTeal(prog, pt.Mode.Application, version=case["version"], assembleConstants=case["vseed"] % 3 == 0)
    except PT_ERRORS as e:
        acc.counters["build_rejected:" + type(e).__name__] += 1
        acc.extra.setdefault("rejections", [])
        if len(acc.extra["rejections"]) < 6:
            acc.extra["rejections"].append(str(e)[:140])
        if "Too many slots" in str(e):
            acc.counters["dropped_resource_limit_slots"] += 1
        elif any(k in ODD_WIDTHS for k in kinds):
            acc.counters["unsupported_width_refused"] += 1
        elif nplain <= 15:
            # every argument was built from the signature's own types: the call fits and must be accepted
            acc.evaluations += 1
            acc.violation("wellformed_call_rejected", case, "a call whose arguments fit %s was rejected: %s: %s" % ("callee(%s)%s" % (",".join(kinds), case["ret"]), type(e).__name__, str(e)[:200]))
        return
    acc.evaluations += 1
    ctx = avm.Ctx(group=[{"Sender": b"\x53" * 32, "TypeEnum": 6, "ApplicationID": 77}])
    try:
        r = avm.run(avm.parse_any(teal), ctx, max_steps=400000)
    except (avm.Unsupported, avm.Timeout) as e:
        acc.counters["dropped_" + type(e).__name__] += 1
        return
    c2 = dict(case, over15=nplain > 15)
    if r.status != "approve" or len(r.inner or []) != 1:
        if is_resource(r):
            acc.counters["dropped_resource"] += 1
            return
        acc.violation("call_failed", c2, "status=%s err=%s inner groups=%d" % (r.status, r.error, len(r.inner or [])), teal=teal[-1500:])
        return
    group = r.inner[0]
    decoded, problems = callee_view(group, sig, kinds)
    if not problems:
        for i, ((gk, gv), (dk, dv)) in enumerate(zip(given, decoded)):
            if gk == "txn":
                for f, v in gv.items():
                    if dv.get(f) != v:
                        problems.append("argument %d: transaction field %s is %r, given %r" % (i, f, dv.get(f), v))
            elif gk in ("plain", "plain_pre"):
                if dv != gv:
                    problems.append("argument %d (%s): callee reads %s..., given encoding %s..." % (i, kinds[i], dv.hex()[:40], gv.hex()[:40]))
            else:
                if dv != gv:
                    problems.append("argument %d: %s reference resolves to %r, given %r" % (i, gk, dv, gv))
        call = group[-1]
        if call.get("ApplicationID") != case["app_id"]:
            problems.append("ApplicationID %r, given %r" % (call.get("ApplicationID"), case["app_id"]))
        if "Note" in case["extra"] and call.get("Note") != bytes.fromhex(case["extra"]["Note"]):
            problems.append("extra field Note not set")
    if problems:
        acc.violation("marshalling_mismatch", c2, "; ".join(problems[:3])[:800], teal=teal[-1500:])
        return
    acc.counters["call_ok"] += 1
    acc.counters["execute_form" if case["form"] == "execute" else "builder_form"] += 1
    if any(g[0] == "plain_pre" for g in given):
        acc.counters["preencoded_args"] += 1
    if any(k in ("account", "asset", "application") for k in kinds):
        acc.counters["ref_args"] += 1
    if any(k in TXK for k in kinds):
        acc.counters["txn_args"] += 1
    if any(f in case["extra"] for f in ("Accounts", "Assets", "Applications")):
        acc.counters["extra_foreign_fields"] += 1
    if any(k in TXK or k in ("account", "asset", "application") for k in kinds):
        acc.nontrivial.add(h([kinds, case["version"], case["form"]]))
    acc.sample({"signature": sig[:160], "version": case["version"], "inner_group": len(group), "form": case["form"]}, cap=4)


def is_resource(r):
    e = r.error or ""
    return any(x in e for x in ("too many Accounts", "too many Assets", "too many Applications", "byte string too long", "stack overflow"))


def must_reject(pt, acc, rng):
    """Arguments that do not fit the signature must be rejected when the expression is built."""
    from ..common import PT_ERRORS, reset_globals
    reset_globals()
    abi = pt.abi
    acc.evaluations += 1
    kind = rng.choice(["width", "arity_more", "arity_less", "elem", "static_len", "txn_type", "count", "txn_not_dict", "dyn_vs_static", "nested_arity", "bool_len",
                       "static_for_dyn", "address_for_bytes", "staticbytes_for_bytes", "static_for_dyn_in_tuple", "static_for_string", "txn_type_pair", "txn_type_pair",
                       "int_expr_uint8", "int_expr_uint16", "int_expr_uint32", "int_expr_byte", "int_expr_bool",
                       "dynbytes_for_string", "staticbytes32_for_address", "dynbytes_for_string_in_tuple", "fit_asymmetric", "fit_asymmetric"])
    x64, x32, s = abi.Uint64(), abi.Uint32(), abi.String()
    t2 = abi.make(abi.Tuple2[abi.Uint64, abi.Bool])
    t3 = abi.make(abi.Tuple3[abi.Uint64, abi.Bool, abi.Uint8])
    pay = {pt.TxnField.type_enum: pt.TxnType.Payment, pt.TxnField.amount: pt.Int(1)}
    cases = {
        "width": ("m(uint64)void", [x32]),
        "arity_more": ("m((uint64,bool))void", [t3]),
        "arity_less": ("m((uint64,bool,uint8))void", [t2]),
        "elem": ("m(uint32[])void", [abi.make(abi.DynamicArray[abi.Uint64])]),
        "static_len": ("m(byte[7])void", [abi.make(abi.StaticArray[abi.Byte, __import__("typing").Literal[8]])]),
        "txn_type": ("m(axfer)void", [pay]),
        "txn_type_pair": None,
        # an integer-typed expression where an encoded uintN / byte is expected (its encoding is N/8 bytes, not whatever Itob gives)
        "int_expr_uint8": ("m(uint8)void", [pt.Int(7)]),
        "int_expr_uint16": ("m(uint16)void", [pt.Int(7) + pt.Int(1)]),
        "int_expr_uint32": ("m(uint32,uint64)void", [pt.Btoi(pt.Bytes("a")), x64]),
        "int_expr_byte": ("m(byte)void", [pt.Int(255)]),
        "int_expr_bool": ("m(bool)void", [pt.Int(1)]),
        "count": ("m(uint64,uint64)void", [x64]),
        "txn_not_dict": ("m(pay)void", [x64]),
        "dyn_vs_static": ("m(uint64[2])void", [abi.make(abi.DynamicArray[abi.Uint64])]),
        "nested_arity": ("m((uint64,(bool,bool))[])void", [abi.make(abi.DynamicArray[abi.Tuple2[abi.Uint64, abi.Tuple3[abi.Bool, abi.Bool, abi.Bool]]])]),
        # fixed-length arrays where a variable-length array is expected (the encoding would lack the length prefix)
        "static_for_dyn": ("m(uint64[])void", [abi.make(abi.StaticArray[abi.Uint64, __import__("typing").Literal[3]])]),
        "address_for_bytes": ("m(byte[])void", [abi.Address()]),
        "staticbytes_for_bytes": ("m(byte[])void", [abi.make(abi.StaticBytes[__import__("typing").Literal[4]])]),
        "static_for_dyn_in_tuple": ("m((uint64,uint16[]))void", [abi.make(abi.Tuple2[abi.Uint64, abi.StaticArray[abi.Uint16, __import__("typing").Literal[2]]])]),
        "static_for_string": ("m(string)void", [abi.make(abi.StaticArray[abi.Byte, __import__("typing").Literal[5]])]),
        # assignability is directed (argument type -> parameter type): the general type where the specific one is declared does not fit
        "dynbytes_for_string": ("m(string)void", [abi.DynamicBytes()]),
        "staticbytes32_for_address": ("m(address)void", [abi.make(abi.StaticBytes[__import__("typing").Literal[32]])]),
        "dynbytes_for_string_in_tuple": ("m((string,uint64))void", [abi.make(abi.Tuple2[abi.DynamicBytes, abi.Uint64])]),
        "fit_asymmetric": None,
        "bool_len": ("m(bool[16])void", [abi.make(abi.StaticArray[abi.Bool, __import__("typing").Literal[9]])]),
    }
    if kind == "txn_type_pair":
        names = {"pay": pt.TxnType.Payment, "axfer": pt.TxnType.AssetTransfer, "afrz": pt.TxnType.AssetFreeze, "acfg": pt.TxnType.AssetConfig,
                 "keyreg": pt.TxnType.KeyRegistration, "appl": pt.TxnType.ApplicationCall}
        a, b = rng.sample(sorted(names), 2)
        cases[kind] = ("m(%s)void" % a, [{pt.TxnField.type_enum: names[b], pt.TxnField.fee: pt.Int(0)}])
        kind_detail = "%s given where %s is declared" % (b, a)
    if kind == "fit_asymmetric":
        # ... and the specific type where the general one is declared does fit (same encoding) and has to be accepted
        sig, args = rng.choice([("m(byte[])void", [abi.String()]), ("m(byte[32])void", [abi.Address()]),
                                ("m((byte[],uint64))void", [abi.make(abi.Tuple2[abi.String, abi.Uint64])]),
                                ("m(uint64,byte[32][])void", [x64, abi.make(abi.DynamicArray[abi.Address])])])
        try:
            pt.InnerTxnBuilder.MethodCall(app_id=pt.Int(1), method_signature=sig, args=args)
            acc.counters["directed_fit_accepted"] += 1
        except Exception as e:
            acc.violation("wellformed_call_rejected", {"probe": kind, "signature": sig}, "an argument of type %s fits %s but was rejected: %s: %s"
                          % (args[-1].type_spec(), sig, type(e).__name__, str(e)[:160]))
        return
    sig, args = cases[kind]
    try:
        pt.InnerTxnBuilder.ExecuteMethodCall(app_id=pt.Int(1), method_signature=sig, args=args)
    except PT_ERRORS:
        acc.counters["mistyped_rejected"] += 1
        acc.counters["mistyped_rejected:" + kind] += 1
        return
    except Exception as e:
        acc.counters["mistyped_foreign_exception:" + type(e).__name__] += 1
        return
    acc.violation("mistyped_argument_accepted", {"probe": kind, "signature": sig}, "%s: an argument that does not fit %s was accepted" % (kind, sig))


def run_shard(shard):
    import pyteal as pt
    from ..common import Acc, rng_for
    acc = Acc()
    if "replay" in shard:
        c = shard["replay"]
        if "probe" in c:
            for _ in range(60):
                must_reject(pt, acc, rng_for(_, "replay"))
        else:
            check_call(pt, acc, {k: v for k, v in c.items() if k != "over15"})
        return acc.result()
    rng = rng_for(shard["seed"], "c14", shard["shard"])
    for i in range(shard["n"]):
        check_call(pt, acc, gen_call(rng))
        if i % 4 == 0:
            must_reject(pt, acc, rng)
    if shard["shard"] < 2:
        # known finding probe: more than 15 plain/reference arguments
        case = gen_call(rng, allow_over15=True)
        case["kinds"] = ["uint64"] * 16
        check_call(pt, acc, case)
    return acc.result()


def classify(v):
    case = v.get("case") or {}
    if v.get("kind") in ("call_failed", "marshalling_mismatch") and case.get("over15"):
        return KNOWN15
    return None


MANIFEST_ENTRY = {
    "technique": "runtime monitor: programs issuing inner method calls executed on the reference AVM, the recorded inner group decoded callee-side with the algosdk codec and compared with the arguments given",
    "text": ("Generated inner method calls (plain, reference and transaction arguments in any order; ABI instances and pre-encoded bytes; "
             "extra fields including foreign arrays; both builder forms; versions 6-10) are compiled by the real compiler and executed; the "
             "inner transaction group recorded by the reference AVM is decoded as an ARC-4 callee would decode it - selector, plain arguments "
             "by type, one-byte reference indices resolved through the foreign arrays, transaction arguments as the preceding inner "
             "transactions in order - and must equal what was given. Mistyped arguments must be rejected at build time. "
             "Held = held on the calls listed."),
    "note": "Known finding: more than 15 non-transaction arguments are not packed into a tuple (17 ApplicationArgs, fails at run time).",
}
