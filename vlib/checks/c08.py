"""C08 - Router dispatches a call to its handler iff the registration allows it.

Monitor: Router.compile_program output is executed on the reference AVM for *every* call in an enumerated call
space (selector or none x OnCompletion x create/non-create x extra-argument counts); each handler logs a unique
tag, so the set of handlers that ran is observed directly.  Oracle: a table model of the registration.
"""
import hashlib
import itertools

from .. import avm

OCS = ["no_op", "opt_in", "close_out", "update_application", "delete_application"]
OCNUM = {"no_op": 0, "opt_in": 1, "close_out": 2, "update_application": 4, "delete_application": 5}
CC = ["NEVER", "CALL", "CREATE", "ALL"]

SPEC = {
    "level": "exploration",
    "rule": ("router configurations: 0..4 methods with random MethodConfig over {NEVER,CALL,CREATE,ALL}^5 (thorough: additionally all "
             "1023 non-never configs of a single method), bare actions with random CallConfig per OnCompletion, handlers as Expr / "
             "Subroutine / ABIReturnSubroutine, with and without clear_state; versions 6..10.  For each configuration ALL calls are "
             "enumerated: selector in {each method, unknown, 3-byte prefix, none} x OnCompletion {NoOp,OptIn,CloseOut,Update,Delete} x "
             "application id {0, !=0} x extra-argument counts {0,1}; plus the clear-state program.  An evaluation is one call; "
             "a configuration is non-trivial when it registers >= 1 handler; distinct = distinct configuration hashes."),
    "assumptions": ["reference AVM (vlib/avm.py) semantics", "model: bare iff NumAppArgs==0; method iff arg0 == selector and config allows"],
    "min_evaluations": {"quick": 20000, "thorough": 200000},
    "must_reach": ["handler_ran_ok", "rejected_ok", "clear_ok", "kind_expr", "kind_sub", "kind_abisub", "selector_collision_refused", "compiled_with_assembled_constants"],
    "shard_timeout": {"quick": 2400, "thorough": 14400},
}


def plan(tier, seed):
    n = 16 if tier == "quick" else 64
    shards = [{"seed": seed, "shard": i, "nshards": n, "tier": tier, "n": 60 if tier == "quick" else 250} for i in range(n)]
    return shards


def allows(cc, create):
    return cc == "ALL" or (cc == "CALL" and not create) or (cc == "CREATE" and create)


def gen_config(rng):
    bare = {oc: rng.choice(["NEVER", "NEVER", "CALL", "CREATE", "ALL"]) for oc in OCS}
    methods = []
    for m in range(rng.randrange(0, 5)):
        while True:
            cfg = {oc: rng.choice(["NEVER", "NEVER", "CALL", "CREATE", "ALL"]) for oc in OCS}
            if any(c != "NEVER" for c in cfg.values()):
                break
        # alias: the handler object has already been looked at / registered elsewhere under its own function name before it is
        # registered here under an overriding name (1: in another router, 2: its method_signature() was read)
        # via: add_method_handler with a MethodConfig, or the @router.method decorator with one keyword per allowed OnCompletion
        # (documented defaults: no keyword at all = NoOp calls only; any keyword given = everything not mentioned is NEVER)
        methods.append({"name": "m%d" % m, "cfg": cfg, "nargs": rng.choice([0, 0, 1]), "alias": rng.choice([0, 0, 0, 1, 2]),
                        "via": rng.choice(["handler", "handler", "decorator", "decorator_explicit_never"])})
    kinds = {}
    for tag in ["B_" + oc for oc in OCS] + ["CLEAR"] + ["M_" + m["name"] for m in methods]:
        kinds[tag] = rng.choice(["expr", "expr_approve", "sub", "abisub"])
        if not tag.startswith("M_") and rng.random() < .2:
            kinds[tag] = rng.choice(["expr_cond_mixed", "expr_if_mixed", "expr_chain_no_else"])  # the call is made by the creator (see check_config)
    # the same Python action object registered for several OnCompletions (with their own CallConfigs), also as clear_state
    share = {}
    active = [oc for oc in OCS if bare[oc] != "NEVER"]
    if len(active) >= 2 and rng.random() < .35:
        src = rng.choice(active)
        for oc in active:
            if oc != src and rng.random() < .6:
                share[oc] = src
    return {"bare": bare, "methods": methods, "kinds": kinds, "clear": rng.random() < .6, "bare_share": share, "grow": rng.random() < .3, "assemble": rng.random() < .3,
            "versions": rng.sample([6, 7, 8, 9, 10], 2)}


def build_router(pt, cfg):
    kinds = cfg["kinds"]

    def mk_action(tag):
        k = kinds[tag]
        if k == "expr_cond_mixed":
            # taken arm logs and falls out of the Cond (the router has to approve afterwards); the last arm exits by itself
            return pt.Cond([pt.Txn.sender() == pt.Global.creator_address(), pt.Log(pt.Bytes(tag))], [pt.Int(1), pt.Reject()])
        if k == "expr_chain_no_else":
            never = pt.Txn.sender() == pt.Global.zero_address()
            return pt.Seq(pt.Log(pt.Bytes(tag)), pt.If(never).Then(pt.Reject()).ElseIf(pt.Txn.fee() > pt.Int(10**9)).Then(pt.Reject()).ElseIf(never).Then(pt.Err()))
        if k == "expr_if_mixed":
            return pt.If(pt.Txn.sender() == pt.Global.creator_address()).Then(pt.Log(pt.Bytes(tag))).Else(pt.Reject())
        if k == "expr":
            return pt.Log(pt.Bytes(tag))
        if k == "expr_approve":
            return pt.Seq(pt.Log(pt.Bytes(tag)), pt.Approve())
        if k == "sub":
            @pt.Subroutine(pt.TealType.none)
            def s():
                return pt.Log(pt.Bytes(tag))
            return s
        @pt.ABIReturnSubroutine
        def a():
            return pt.Log(pt.Bytes(tag))
        return a
    CCs = pt.CallConfig
    share = cfg.get("bare_share", {})
    acts = {}

    def bare_action(oc):
        tag = "B_" + share.get(oc, oc)
        if tag not in acts:
            acts[tag] = mk_action(tag)
        return acts[tag]
    bca = pt.BareCallActions(**{oc: pt.OnCompleteAction(action=bare_action(oc), call_config=getattr(CCs, cc))
                                for oc, cc in cfg["bare"].items() if cc != "NEVER"})
    cs = mk_action("CLEAR") if cfg["clear"] else None
    r = pt.Router("t", bca, clear_state=cs)
    sels = {}
    def mk_method(name, nargs):
        if nargs == 0 and kinds.get("M_" + name) == "sub":
            def f():
                # the body ends in an If/ElseIf chain without Else whose arms all exit and none of which is taken
                never = pt.Txn.sender() == pt.Global.zero_address()
                return pt.Seq(pt.Log(pt.Bytes("M_" + name)), pt.If(never).Then(pt.Reject()).ElseIf(never).Then(pt.Reject()))
        elif nargs == 0:
            def f():
                return pt.Log(pt.Bytes("M_" + name))
        else:
            def f(x: pt.abi.Uint64):
                return pt.Log(pt.Bytes("M_" + name))
        f.__name__ = name
        return f

    for mi, m in enumerate(cfg["methods"]):
        if cfg.get("grow") and mi == 1:
            # the router is built once before the remaining methods are registered (under both calling conventions)
            r.compile_program(version=7)
            r.compile_program(version=8)
        name = m["name"]
        f = mk_method(name, m["nargs"])
        sig = name + ("()void" if m["nargs"] == 0 else "(uint64)void")
        mc = pt.MethodConfig(**{oc: getattr(CCs, cc) for oc, cc in m["cfg"].items()})
        if m.get("via", "handler").startswith("decorator"):
            only_noop_call = all((cc == "CALL") if oc == "no_op" else (cc == "NEVER") for oc, cc in m["cfg"].items())
            if m["via"] == "decorator" and only_noop_call and mi % 2 == 0:
                kw = {}  # the bare decorator
            elif m["via"] == "decorator":
                kw = {oc: getattr(CCs, cc) for oc, cc in m["cfg"].items() if cc != "NEVER"}
            else:
                kw = {oc: getattr(CCs, cc) for oc, cc in m["cfg"].items()}
            r.method(f, **kw) if kw else r.method(f)
        elif m.get("alias"):
            f.__name__ = "orig_" + name
            hdl = pt.ABIReturnSubroutine(f)
            if m["alias"] == 1:
                pt.Router("elsewhere", pt.BareCallActions()).add_method_handler(hdl)
            else:
                hdl.method_signature()
            r.add_method_handler(hdl, overriding_name=name, method_config=mc)
        else:
            r.add_method_handler(pt.ABIReturnSubroutine(f), method_config=mc)
        sels[name] = hashlib.new("sha512_256", sig.encode()).digest()[:4]
    return r, sels


def check_config(pt, acc, cfg, only_call=None):
    from ..common import PT_ERRORS, h, reset_globals
    reset_globals()
    key = h(cfg)
    try:
        r, sels = build_router(pt, cfg)
    except PT_ERRORS as e:
        acc.violation("router_build_rejected", {"config": cfg}, "%s: %s" % (type(e).__name__, str(e)[:300]))
        return
    for k in set(cfg["kinds"].values()):
        acc.counters["kind_" + ("expr" if k.startswith("expr") else k)] += 1
    registered = any(c != "NEVER" for c in cfg["bare"].values()) or cfg["methods"]
    if registered:
        acc.nontrivial.add(key)
    for v in cfg["versions"]:
        try:
            ap, cl, contract = r.compile_program(version=v, assemble_constants=bool(cfg.get("assemble")))
            if cfg.get("assemble"):
                acc.counters["compiled_with_assembled_constants"] += 1
        except PT_ERRORS as e:
            acc.violation("router_compile_rejected", {"config": cfg, "version": v}, "%s: %s" % (type(e).__name__, str(e)[:300]))
            continue
        except Exception as e:
            acc.violation("router_compile_crash", {"config": cfg, "version": v}, "%s: %s" % (type(e).__name__, str(e)[:300]))
            continue
        P, C = avm.parse_any(ap), avm.parse_any(cl)
        selopts = [(m["name"], m, sels[m["name"]]) for m in cfg["methods"]]
        selopts += [("unknown", None, b"\x01\x02\x03\x04"), ("none", None, None)]
        if cfg["methods"]:
            m0 = cfg["methods"][0]
            selopts.append(("prefix3", None, sels[m0["name"]][:3]))
            selopts.append(("suffixed", None, sels[m0["name"]] + b"\x00"))
        for (n, m, sel), oc, create, extra in itertools.product(selopts, OCS, (False, True), (0, 1)):
            if sel is None and extra:
                continue
            nargs = (m["nargs"] if m else 0)
            args = [] if sel is None else [sel] + [(7).to_bytes(8, "big")] * nargs + [b"x"] * extra
            call = {"selector": n, "oc": oc, "create": create, "extra": extra, "version": v}
            if only_call is not None and call != only_call:
                continue
            # (the sender is the application's creator: actions of the mixed-exit kinds log on that path and reject otherwise)
            ctx = avm.Ctx(group=[{"ApplicationArgs": args, "OnCompletion": OCNUM[oc], "ApplicationID": 0 if create else 77,
                                  "TypeEnum": 6, "Sender": b"C" * 32}], app_id=0 if create else 77)
            try:
                res = avm.run(P, ctx)
            except (avm.Unsupported, avm.Timeout) as e:
                acc.counters["dropped_" + type(e).__name__] += 1
                continue
            acc.evaluations += 1
            if sel is None:
                exp = ["B_" + cfg.get("bare_share", {}).get(oc, oc)] if allows(cfg["bare"][oc], create) else None
                if cfg.get("bare_share", {}).get(oc):
                    acc.counters["shared_action_calls"] += 1
            elif m is None:
                exp = None
            else:
                exp = ["M_" + n] if allows(m["cfg"][oc], create) else None
            got = [l.decode("latin-1") for l in res.logs] if res.status == "approve" else None
            if res.san:
                acc.violation("sanitizer", {"config": cfg, "call": call}, "AVM sanitizer: %r" % (res.san[:2],))
            if got != exp:
                acc.violation("dispatch_mismatch", {"config": cfg, "call": call},
                              "call %r: model says %s, program %s (status=%s err=%s logs=%r)"
                              % (call, "run " + str(exp) if exp else "reject", "ran " + str(got) if got is not None else "rejected",
                                 res.status, res.error, res.logs))
            else:
                acc.counters["handler_ran_ok" if exp else "rejected_ok"] += 1
            if sel is None and exp and cfg["kinds"].get(exp[0], "").endswith("_mixed") and got == exp:
                # the same bare call from somebody else takes the action's exiting arm: rejected, and nothing else runs
                ctx2 = avm.Ctx(group=[{"ApplicationArgs": args, "OnCompletion": OCNUM[oc], "ApplicationID": 0 if create else 77,
                                       "TypeEnum": 6, "Sender": b"S" * 32}], app_id=0 if create else 77)
                r2 = avm.run(P, ctx2)
                acc.evaluations += 1
                if r2.status == "approve" or r2.logs:
                    acc.violation("dispatch_mismatch", {"config": cfg, "call": dict(call, sender="stranger")}, "bare action %s rejects for a stranger, program: status=%s logs=%r" % (exp[0], r2.status, r2.logs))
                else:
                    acc.counters["mixed_exit_action_ok"] += 1
        if only_call is None or only_call.get("clear"):
            res = avm.run(C, avm.Ctx(group=[{"OnCompletion": 3, "ApplicationID": 77, "TypeEnum": 6, "Sender": b"C" * 32}]))
            acc.evaluations += 1
            exp = ["CLEAR"] if cfg["clear"] else None
            got = [l.decode("latin-1") for l in res.logs] if res.status == "approve" else None
            if got != exp:
                acc.violation("clear_mismatch", {"config": cfg, "call": {"clear": True, "version": v}},
                              "clear-state program: expected %s got %s (status=%s err=%s)" % (exp, got, res.status, res.error))
            else:
                acc.counters["clear_ok"] += 1
    acc.sample({"bare": {k: v for k, v in cfg["bare"].items() if v != "NEVER"},
                "methods": [{m["name"]: {k: v for k, v in m["cfg"].items() if v != "NEVER"}} for m in cfg["methods"]],
                "kinds": cfg["kinds"], "versions": cfg["versions"]}, cap=3)


_COLLISIONS = {}


def colliding_signatures(stem):
    """Pairs of distinct ARC-4 signatures with the same 4-byte selector, found by a birthday search (~200k hashes)."""
    if stem not in _COLLISIONS:
        seen, pairs = {}, []
        for i in range(260000):
            sig = "%s%d()void" % (stem, i)
            sel = hashlib.new("sha512_256", sig.encode()).digest()[:4]
            if sel in seen:
                pairs.append((seen[sel], sig))
                if len(pairs) >= 4:
                    break
            else:
                seen[sel] = sig
        _COLLISIONS[stem] = pairs
    return _COLLISIONS[stem]


def collision_probe(pt, acc, rng, stem=None, overlapping=None):
    """Two different methods whose selectors collide cannot both be dispatched by selector.  With overlapping MethodConfigs the
    registration has to be refused; with disjoint ones it may be refused, or else each call has to reach the method whose
    configuration allows it."""
    from ..common import PT_ERRORS, reset_globals
    reset_globals()
    stem = stem or rng.choice(["pay_out", "stake", "claim", "vote", "f", "swap_exact"])
    overlapping = rng.random() < .5 if overlapping is None else overlapping
    pairs = colliding_signatures(stem)
    if not pairs:
        acc.counters["collision_search_empty"] += 1
        return
    a, b = rng.choice(pairs)
    if rng.random() < .5:
        a, b = b, a
    case = {"probe": "collision", "stem": stem, "overlapping": overlapping, "signatures": [a, b]}
    acc.evaluations += 1
    CCs = pt.CallConfig

    def handler(sig):
        def f():
            return pt.Log(pt.Bytes("H:" + sig))
        f.__name__ = sig.split("(")[0]
        return pt.ABIReturnSubroutine(f)
    r = pt.Router("c", pt.BareCallActions(), clear_state=pt.Approve())
    cfg_a = pt.MethodConfig(no_op=CCs.CALL)
    cfg_b = pt.MethodConfig(no_op=CCs.CALL, opt_in=CCs.CALL) if overlapping else pt.MethodConfig(opt_in=CCs.CALL)
    try:
        r.add_method_handler(handler(a), method_config=cfg_a)
        r.add_method_handler(handler(b), method_config=cfg_b)
        ap, _, _ = r.compile_program(version=rng.choice([6, 8, 10]))
    except PT_ERRORS:
        acc.counters["selector_collision_refused"] += 1
        return
    if overlapping:
        acc.violation("selector_collision_accepted", case, "%s and %s share selector %s and both allow NoOp calls, yet both were registered"
                      % (a, b, hashlib.new("sha512_256", a.encode()).digest()[:4].hex()))
        return
    sel = hashlib.new("sha512_256", a.encode()).digest()[:4]
    prog = avm.parse_any(ap)
    for oc, want in ((0, "H:" + a), (1, "H:" + b)):
        res = avm.run(prog, avm.Ctx(group=[{"ApplicationArgs": [sel], "OnCompletion": oc, "ApplicationID": 77, "TypeEnum": 6}]))
        got = [l.decode("latin1") for l in res.logs]
        if res.status != "approve" or got != [want]:
            acc.violation("selector_collision_misdispatch", dict(case, on_completion=oc), "call with the shared selector and OnCompletion %d: status %s, handlers %r, registration allows exactly %r" % (oc, res.status, got, want))
            return
    acc.counters["selector_collision_dispatched"] += 1


def run_shard(shard):
    import pyteal as pt
    from ..common import Acc, rng_for
    acc = Acc()
    if "replay" in shard:
        c = shard["replay"]
        if c.get("probe") == "collision":
            collision_probe(pt, acc, rng_for(0, "replay"), c["stem"], c["overlapping"])
            return acc.result()
        check_config(pt, acc, c["config"], c.get("call"))
        return acc.result()
    rng = rng_for(shard["seed"], "c08", shard["shard"])
    for _ in range(shard["n"]):
        check_config(pt, acc, gen_config(rng))
    for _ in range(6):
        collision_probe(pt, acc, rng)
    if shard["tier"] == "thorough":
        # all 1023 non-never MethodConfigs of a single method, split across shards
        allcfg = [c for c in itertools.product(CC, repeat=5) if any(x != "NEVER" for x in c)]
        for i, c in enumerate(allcfg):
            if i % shard["nshards"] != shard["shard"]:
                continue
            cfg = {"bare": {oc: "NEVER" for oc in OCS}, "methods": [{"name": "m0", "cfg": dict(zip(OCS, c)), "nargs": 0}],
                   "kinds": {"M_m0": "abisub", "CLEAR": "expr", **{"B_" + oc: "expr" for oc in OCS}}, "clear": False,
                   "versions": [rng.choice([6, 7]), rng.choice([8, 9, 10])]}
            check_config(pt, acc, cfg)
            acc.counters["single_method_configs_enumerated"] += 1
    return acc.result()


MANIFEST_ENTRY = {
    "technique": "runtime monitor: Router-built programs executed on a reference AVM for every call of an enumerated call space; handler identity observed through unique log tags vs a table model",
    "text": ("Random router configurations (and, in the thorough tier, all 1023 single-method configurations) are compiled by the "
             "real Router at versions 6-10; for each, every call in the enumerated call space is executed and the set of handlers "
             "that ran is compared with a 20-line table model of the registration, including the clear-state program. "
             "Held = held on the calls listed. Methods are registered through add_method_handler and through the decorator; actions include conditionals with exiting and non-exiting arms; colliding selectors (found by birthday search) must be refused or dispatched correctly; routers are also compiled with assembled constants."),
    "note": "Trusted: vlib/avm.py; the model's reading of the documented dispatch rule.",
}
