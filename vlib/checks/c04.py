"""C04 - successful compilation yields complete, target-legal TEAL.

Monitor: every TEAL text the real compiler emits for a broad, version-straddling workload (constructor catalogue x versions 2..10 x
both modes, random recipes incl. below their documented minimum version, label hazards, immediates on both sides of their encoding
range, routers, ABI programs) is judged by an independent assembler model: Go-assembler grammar + hand-written AVM language table
(opcode / field minimum versions, modes, immediate kinds and ranges) + CFG path analysis (labels defined once, no back-branch below
v4, every path ends in return/retsub/err, no fall-through into a routine, proto first, no placeholder).
"""
import re

SPEC = {
    "level": "exploration",
    "rule": ("sources: (1) a catalogue of ~670 public constructors (every opcode family, every transaction field on Txn/Gtxn/Gtxn[expr]/"
             "InnerTxn/Gitxn and as itxn_field, every global, asset/app/account parameter) compiled at every version 2..10 in both modes, "
             "every third with assembleConstants; (2) random recipes at random versions incl. below their documented minimum; (3) label "
             "hazards (subroutine names that sanitise to equal/empty stems or look like opcodes/labels); (4) immediates at 0/15/16/127/128/"
             "255/256/...; (5) random routers (approval+clear); (6) ABI encode programs; (7) the repository's own example programs (examples/**, tests/teal/rps.py, the algobank router) at every version from their own minimum under every option setting; (8) every program the compiler returns to the repository's own tests (recorded by a sys.monitoring return hook while pytest runs them).  An evaluation is one compilation outcome judged "
             "(emitted text -> legal at (version, mode)?; rejection -> PyTeal error type?).  Non-trivial = the program was emitted and "
             "contains a branch, a callsub or a version/mode-gated opcode or field; distinct = distinct emitted texts."),
    "assumptions": ["vlib/langspec.py (hand-written from the AVM specification; only 'certain' entries can alarm)",
                    "vlib/tealgrammar.py (Go assembler tokenizer and literal grammar)", "vlib/cfg.py path analysis"],
    "min_evaluations": {"quick": 8000, "thorough": 60000},
    "must_reach": ["emitted_tail", "emitted_suite", "emitted_catalogue", "emitted_sequence", "emitted_corpus", "emitted_recipe", "emitted_labels", "emitted_immediates", "emitted_router", "emitted_abi",
                   "rejected_pt_error", "legal", "gated_constructs_seen"],
    "shard_timeout": {"quick": 2400, "thorough": 14400},
}

BACKJUMP = "C04-backjump-below-v4"
ITXNFIELD = "C04-itxn-field-version"
PLACEHOLDER = re.compile(r"slot#\d+|subroutine#\d+|ScratchSlot\(|SubroutineDefinition|object at 0x")


def plan(tier, seed):
    n = 16 if tier == "quick" else 64
    return [{"seed": seed, "shard": i, "nshards": n, "tier": tier,
             "recipes": 300 if tier == "quick" else 1500, "labels": 25 if tier == "quick" else 150,
             "immediates": 60 if tier == "quick" else 400, "routers": 4 if tier == "quick" else 20, "abi": 20 if tier == "quick" else 150} for i in range(n)] + [
        {"seed": seed, "shard": n, "nshards": n, "tier": tier, "suite": True}]


def judge(acc, it, seen):
    from .. import cfg
    from ..common import h, jsonable
    acc.evaluations += 1
    case = {"source": it.tag, "mode": it.mode, "version": it.version, "opts": list(it.opts), "desc": jsonable(it.desc)}
    if it.teal is None:
        if it.pt_error:
            acc.counters["rejected_pt_error"] += 1
            acc.counters["rejected:" + it.tag] += 1
        else:
            acc.counters["crashed:" + it.errtype] += 1  # C20's subject; counted here
        return
    acc.counters["emitted_" + it.tag] += 1
    text = it.teal
    findings, cnt, prog = cfg.check_legal(text, it.version, it.mode)
    acc.counters["unknown_construct"] += cnt.get("unknown_construct", 0)
    if PLACEHOLDER.search("\n".join(l.split("//")[0] for l in text.split("\n") if not l.lstrip().startswith(("byte ", "pushbytes ", "method ", "bytecblock ")))):
        findings.append(cfg.Finding("placeholder", "an unresolved placeholder survives in the emitted text"))
    # TMPL_ placeholders are legal template variables, not findings: the literal grammar reports them as immediates
    findings = [f for f in findings if not (f.kind in ("immediate", "address") and "TMPL_" in f.detail)]
    if prog is not None:
        ops = {I.op for I in prog.instrs}
        gated = [I.op for I in prog.instrs if cfg.L.OPS.get(I.op) and (cfg.L.OPS[I.op].minv > 2 or cfg.L.OPS[I.op].modes != "sa")]
        if gated:
            acc.counters["gated_constructs_seen"] += 1
        key = h(text)
        if key not in seen and (ops & {"b", "bz", "bnz", "callsub"} or gated):
            acc.nontrivial.add(key)
        seen.add(key)
    back = [f for f in findings if f.kind == "backjump"]
    other = [f for f in findings if f.kind != "backjump"]
    if other:
        only_itxn = all(f.kind == "field_version" and f.detail.startswith("itxn_field ") for f in other)
        acc.violation("illegal_teal", dict(case, only_itxn_field_version=only_itxn), "; ".join(repr(f) for f in other[:4])[:900], teal=text[-2500:])
    elif back:
        acc.violation("backjump", dict(case, only_backjumps=True), "; ".join(repr(f) for f in back[:3])[:600])
    else:
        acc.counters["legal"] += 1
        acc.counters["legal_v%d_%s" % (it.version, it.mode)] += 1
    if len(acc.samples) < 3 and prog is not None and len(prog.instrs) > 8:
        acc.sample({"source": it.tag, "mode": it.mode, "version": it.version, "instructions": len(prog.instrs), "labels": len(prog.labels),
                    "desc": str(jsonable(it.desc))[:200]})


def run_shard(shard):
    import pyteal as pt
    from .. import feed
    from ..common import Acc, rng_for
    acc = Acc()
    seen = set()
    if "replay" in shard:
        return replay(pt, acc, shard["replay"], seen)
    if shard.get("suite"):
        return suite_shard(acc, seen, shard["tier"])
    rng = rng_for(shard["seed"], "c04", shard["shard"])
    for it in feed.catalogue_items(pt, rng, shard["shard"], shard["nshards"]):
        judge(acc, it, seen)
    for it in feed.corpus_items(pt, rng, shard["shard"], shard["nshards"]):
        judge(acc, it, seen)
    for it in feed.recipe_items(pt, rng, shard["recipes"]):
        judge(acc, it, seen)
    for it in feed.label_items(pt, rng, shard["labels"]):
        judge(acc, it, seen)
    for it in feed.sequence_items(pt, rng, shard["labels"]):
        judge(acc, it, seen)
    for it in feed.tail_items(pt, rng, shard["labels"]):
        judge(acc, it, seen)
    for it in feed.declared_type_items(pt, rng):
        judge(acc, it, seen)
    for it in feed.immediate_items(pt, rng, shard["immediates"]):
        judge(acc, it, seen)
    for it in feed.boundary_immediate_items(pt, shard["shard"], shard["nshards"]):
        judge(acc, it, seen)
    for it in feed.constant_block_items(pt, shard["shard"], shard["nshards"]):
        judge(acc, it, seen)
    for it in feed.router_items(pt, rng, shard["routers"]):
        judge(acc, it, seen)
    for it in feed.abi_items(pt, rng, shard["abi"]):
        judge(acc, it, seen)
    return acc.result()


def suite_shard(acc, seen, tier):
    """The repository's own tests as workload: every program the compiler returned to one of them is judged like any other."""
    from .. import feed, suite
    recs, st = suite.record(tier)
    acc.counters["suite_tests_files"] += st["files"]
    acc.counters["suite_raw_records"] += st["raw_records"]
    for r in recs:
        if r.get("mode") not in ("Application", "Signature") or not isinstance(r.get("version"), int):
            acc.counters["suite_skipped_malformed"] += 1
            continue
        it = feed.Item("suite", "app" if r["mode"] == "Application" else "sig", r["version"], tuple(r["optimize"] or (None, None)),
                       {"tests": r["tests"], "assemble": r["assemble_constants"], "with_sourcemap": r["with_sourcemap"]})
        it.teal = r["teal"]
        judge(acc, it, seen)
    return acc.result()


def replay(pt, acc, case, seen):
    """Replays re-generate by description where possible (recipes, catalogue entries, immediates, labels)."""
    from .. import build, feed, opcatalog
    d = case["desc"]
    it = feed.Item(case["source"], case["mode"], case["version"], tuple(case["opts"]), d)
    if case["source"] == "recipe":
        feed._compile(pt, it, lambda: build.build(d["recipe"]))
    elif case["source"] == "catalogue":
        ent = next(e for e in opcatalog.entries(pt) if e[0] == d["entry"])
        feed._compile(pt, it, lambda: opcatalog.wrap(pt, ent), assemble=d.get("assemble", False))
    else:
        acc.counters["replay_unsupported_source"] += 1
        return acc.result()
    judge(acc, it, seen)
    return acc.result()


def classify(v):
    case = v.get("case") or {}
    if v.get("kind") == "backjump" and case.get("only_backjumps") and case.get("version", 9) < 4:
        return BACKJUMP
    if v.get("kind") == "illegal_teal" and case.get("only_itxn_field_version"):
        return ITXNFIELD
    return None


MANIFEST_ENTRY = {
    "technique": "runtime monitor: every program the real compiler emits for a version/mode-straddling workload is assembled by an independent model (Go-assembler grammar + hand-written AVM language table + CFG path analysis)",
    "text": ("Tens of thousands of compilations per run - a catalogue of every public constructor at every version 2..10 in both modes, "
             "random recipes at and below their minimum version, label hazards, boundary immediates, routers and ABI programs - are "
             "judged: emitted text must open with the right pragma, contain only opcodes, fields and immediates legal at (version, mode) "
             "per an independent hand-written AVM table, define every branch/callsub target exactly once, contain no placeholder, and end "
             "every path in return/retsub/err without falling through into a routine; a program that is not emitted must have been rejected "
             "with a PyTeal error. Held = held on the compilations listed."),
    "note": "Trusted: vlib/langspec.py ('certain' entries only), vlib/tealgrammar.py, vlib/cfg.py; calibrated on the repository's golden TEAL files. Known finding: backward branches below v4.",
}
