"""C15 - source maps are faithful and never perturb the program.

Monitor: generated Python source files (one unique marker constant per physical line, subroutines and routers spread over
several modules, multi-line calls, lambdas, comprehensions, thousands of filler lines for large deltas) are imported and compiled
by the real compiler (a) plainly, (b) with a source map, both in a process with the feature gate on, and (c) plainly in a process
where the gate was never enabled.  Observed: the three TEAL texts; the map's keys; every entry's file/line against the files on
disk; for every marker constant the (file, line) its TEAL line is attributed to; the Revision-3 JSON decoded by an independent VLQ
decoder and by from_json; annotated TEAL with comments removed by the assembler tokenizer.  Synthetic R3SourceMaps with hostile
deltas exercise the codec alone.
"""
import base64
import json
import os
import subprocess
import tempfile

RECURSION_LIMIT = 6000

try:  # the gate must be on before pyteal is imported in this (worker) process; the driver process has no repository on its path
    from feature_gates import FeatureGates
    FeatureGates.set_sourcemap_enabled(True)
except Exception:
    pass

SPEC = {
    "level": "exploration",
    "rule": ("generated source trees of 1..3 modules (decorated subroutines and ABI subroutines in helper modules, a program() or a Router "
             "with @method handlers in the main module, single- and multi-line calls, lambdas, list comprehensions, While/If/Cond, filler "
             "blocks up to 5,200 lines) with one marker constant per line; versions 5..10; annotate options {plain, headers, concise}; "
             "plus synthetic R3SourceMaps (many sources, deltas 0, +-1, +-2^15, +-2^31, long runs) for the codec.  An evaluation is one "
             "compiled source tree (all observations) or one synthetic map; non-trivial = trees with >= 2 modules or a line delta >= 512 "
             "between consecutive TEAL lines; distinct = distinct tree hashes."),
    "assumptions": ["an independent 25-line Base64-VLQ decoder for the Revision-3 'mappings' string", "vlib/tealgrammar.py tokenizer (comment removal)"],
    "min_evaluations": {"quick": 300, "thorough": 3000},
    "must_reach": ["teal_identical_3way", "second_cwd_entries_resolve", "markers_attributed", "keys_ok", "entries_point_into_files", "json_roundtrip_ok", "independent_vlq_ok", "annotated_ok",
                   "multi_module", "large_delta", "router_trees", "synthetic_maps_ok", "assembled_trees", "repeated_constants_checked"],
    "shard_timeout": {"quick": 2400, "thorough": 14400},
}

B64 = "ABCDEFGHIJKLMNOPQRSTUVWXYZabcdefghijklmnopqrstuvwxyz0123456789+/"


def plan(tier, seed):
    n = 16 if tier == "quick" else 64
    return [{"seed": seed, "shard": i, "nshards": n, "tier": tier, "n": 50 if tier == "quick" else 250, "synthetic": 100 if tier == "quick" else 600} for i in range(n)]


# ------------------------------------------------------------------------------------------------ independent VLQ decoder
def vlq_decode(seg):
    out, shift, val = [], 0, 0
    for ch in seg:
        d = B64.index(ch)
        val |= (d & 31) << shift
        if d & 32:
            shift += 5
        else:
            out.append(-(val >> 1) if val & 1 else val >> 1)
            shift = val = 0
    return out


def decode_mappings(j):
    """[(generated line, generated column, source index, source line, source column)] from a Revision-3 JSON dict."""
    res = []
    src = sl = sc = 0
    for gline, group in enumerate(j["mappings"].split(";")):
        gcol = 0
        if not group:
            continue
        for seg in group.split(","):
            f = vlq_decode(seg)
            gcol += f[0]
            if len(f) >= 4:
                src += f[1]
                sl += f[2]
                sc += f[3]
                res.append((gline, gcol, src, sl, sc))
            else:
                res.append((gline, gcol, None, None, None))
    return res


def constant_sites(teal):
    """[(0-based TEAL line index, value pushed)] for int/pushint/intc*/byte/pushbytes/bytec*/addr-free constant loads."""
    from .. import tealgrammar as G
    try:
        prog = G.parse_any(teal)
    except G.ParseError:
        return []
    intc, bytec, out = [], [], []
    for I in prog.instrs:
        op, a = I.op, I.args
        try:
            if op == "intcblock":
                intc = [G.parse_int(x) for x in a]
            elif op == "bytecblock":
                bytec, rest = [], list(a)
                while rest:
                    b, n = G.parse_bytes_args(rest)
                    bytec.append(b)
                    rest = rest[n:]
            elif op in ("int", "pushint"):
                out.append((I.line - 1, G.parse_int(a[0])))
            elif op == "intc":
                out.append((I.line - 1, intc[int(a[0])]))
            elif op.startswith("intc_"):
                out.append((I.line - 1, intc[int(op[5:])]))
            elif op in ("byte", "pushbytes"):
                out.append((I.line - 1, G.parse_bytes_args(a)[0]))
            elif op == "bytec":
                out.append((I.line - 1, bytec[int(a[0])]))
            elif op.startswith("bytec_"):
                out.append((I.line - 1, bytec[int(op[6:])]))
        except (G.ParseError, IndexError, ValueError):
            continue
    return out


# ------------------------------------------------------------------------------------------------ one source tree
def check_tree(pt, acc, desc, directory, off_teal, rng):
    import importlib
    from .. import smgen
    from .. import tealgrammar as G
    from ..common import PT_ERRORS, h, reset_globals
    reset_globals()
    acc.evaluations += 1
    case = {"tree": {k: desc.get(k) for k in ("main", "entry", "version", "nlines", "repeats", "assemble", "typetrack", "elsewhere")}, "sources": [open(p).read() for p in desc["files"]]}
    try:
        m = importlib.import_module(desc["main"])
        router = desc["entry"] == "router"
        opts = rng.choice([dict(annotate_teal=True), dict(annotate_teal=True, annotate_teal_headers=True), dict(annotate_teal=True, annotate_teal_concise=True),
                           dict(annotate_teal=True, annotate_teal_headers=True, annotate_teal_concise=True)])
        if not router:
            # one program object for both compilations: module-level subroutines cache their slots, so a second program()
            # would be a different program as far as slot numbering goes (that is C11's territory, not the source map's)
            prog = m.program()
            asm = bool(desc.get("assemble"))
            tt = {} if desc.get("typetrack", True) else {"assembly_type_track": False}
            plain = pt.Compilation(prog, pt.Mode.Application, version=desc["version"], assemble_constants=asm, **tt).compile().teal
            try:
                res = pt.Compilation(prog, pt.Mode.Application, version=desc["version"], assemble_constants=asm, **tt).compile(with_sourcemap=True, teal_filename="gen.teal", **opts)
            except Exception as e:
                # the plain compilation of the same object has just succeeded: asking for the map must not turn that into a failure
                acc.violation("sourcemap_request_fails", dict(case, typetrack=desc.get("typetrack", True)), "plain compilation succeeds, compile(with_sourcemap=True) raises %s: %s" % (type(e).__name__, " ".join(str(e).split())[:300]))
                return
            mapped_teal, sm = res.teal, res.sourcemap
            maps = [(mapped_teal, sm)]
            if tt:
                acc.counters["typetrack_off_trees"] += 1
        else:
            router_obj = m.router()
            asm = bool(desc.get("assemble"))
            ap, cl, _ = router_obj.compile_program(version=desc["version"], assemble_constants=asm)
            plain = ap + "\n=====\n" + cl
            try:
                rr = router_obj.compile(version=desc["version"], assemble_constants=asm, with_sourcemaps=True, approval_filename="a.teal", clear_filename="c.teal", **opts)
            except Exception as e:
                acc.violation("sourcemap_request_fails", dict(case, router=True), "compile_program succeeds, Router.compile(with_sourcemaps=True) raises %s: %s" % (type(e).__name__, " ".join(str(e).split())[:300]))
                return
            mapped_teal = rr.approval_teal + "\n=====\n" + rr.clear_teal
            maps = [(rr.approval_teal, rr.approval_sourcemap), (rr.clear_teal, rr.clear_sourcemap)]
            acc.counters["router_trees"] += 1
    except PT_ERRORS as e:
        acc.counters["tree_rejected:" + type(e).__name__] += 1
        acc.extra.setdefault("rejections", [])
        if len(acc.extra["rejections"]) < 5:
            acc.extra["rejections"].append(str(e)[:200])
        return
    key = h(case["sources"])
    if len(desc["files"]) >= 2:
        acc.counters["multi_module"] += 1
        acc.nontrivial.add(key)
    # ---- 1. the program is not perturbed
    off = off_teal.get(desc["main"])
    if plain != mapped_teal:
        acc.violation("sourcemap_changes_teal", case, "compile(with_sourcemap=True) TEAL differs from the plain compilation in the same process")
    elif off is None or off.startswith("EXC:"):
        acc.counters["gate_off_unavailable"] += 1
    elif off != plain:
        a, b = off.split("\n"), plain.split("\n")
        i = next((k for k in range(min(len(a), len(b))) if a[k] != b[k]), min(len(a), len(b)))
        only_slots = len(a) == len(b) and all(x == y or (x.split()[0] == y.split()[0] and x.split()[0] in ("load", "store")) for x, y in zip(a, b) if x.strip() and y.strip())
        acc.violation("gate_changes_teal", dict(case, router=router, only_slot_numbers=only_slots), "TEAL from a process with the source-map gate off differs at line %d: %r vs %r"
                      % (i + 1, a[i] if i < len(a) else None, b[i] if i < len(b) else None))
    else:
        acc.counters["teal_identical_3way"] += 1
    # ---- 2..5 the map
    for teal, sm in maps:
        r3 = sm.r3_sourcemap
        lines = teal.split("\n")
        keys = sorted(r3.entries.keys())
        if keys != [(i, 0) for i in range(len(lines))]:
            acc.violation("map_keys", case, "map has %d entries for %d TEAL lines; first keys %r" % (len(keys), len(lines), keys[:3]))
            continue
        acc.counters["keys_ok"] += 1
        root = r3.source_root or ""
        filecache = {}
        bad = None
        prev = None
        for (li, _), e in sorted(r3.entries.items()):
            if e.source is None:
                bad = "TEAL line %d has no source" % li
                break
            path = os.path.normpath(os.path.join(root, e.source))
            if path not in filecache:
                filecache[path] = open(path).read().split("\n") if os.path.isfile(path) else None
            if filecache[path] is None:
                bad = "entry %d names missing file %r" % (li, e.source)
                break
            if not (0 <= e.source_line < len(filecache[path])):
                bad = "entry %d points at line %d of %s which has %d lines" % (li, e.source_line + 1, e.source, len(filecache[path]))
                break
            if prev is not None and abs(e.source_line - prev) >= 512:
                acc.counters["large_delta"] += 1
                acc.nontrivial.add(key)
            prev = e.source_line
        if bad:
            acc.violation("map_entry", case, bad)
            continue
        acc.counters["entries_point_into_files"] += 1
        # markers: every constant-load site (pseudo-op, push op or constant-block load) with the value it pushes
        nmark = 0
        sites = constant_sites(teal)
        rep_seen = {}
        for li, value in sites:
            line = lines[li]
            mk = smgen.marker_of_int(value) if isinstance(value, int) else smgen.marker_of_bytes(value)
            if isinstance(value, int) and str(value) in desc.get("repeats", {}):
                rep_seen.setdefault(str(value), []).append(r3.entries[(li, 0)].source_line + 1)
            if mk is None:
                continue
            fidx, srcline = mk
            if fidx >= len(desc["files"]):
                continue
            e = r3.entries[(li, 0)]
            path = os.path.normpath(os.path.join(root, e.source))
            nmark += 1
            if os.path.realpath(path) != os.path.realpath(desc["files"][fidx]) or e.source_line + 1 != srcline:
                acc.violation("marker_misattributed", case, "TEAL line %d %r was written on line %d of %s but is attributed to %s:%d"
                              % (li + 1, line.strip()[:40], srcline, os.path.basename(desc["files"][fidx]), e.source, e.source_line + 1))
                break
        else:
            if nmark:
                acc.counters["markers_attributed"] += nmark
            if desc.get("assemble"):
                acc.counters["assembled_trees"] += 1
            for val, want in desc.get("repeats", {}).items():
                got_lines = rep_seen.get(val, [])
                if got_lines and sm is maps[0][1]:
                    acc.counters["repeated_constants_checked"] += 1
                    if got_lines != [l for _, l in want]:
                        acc.violation("repeated_constant_misattributed", case, "value %s was written on lines %r (in program order) but its %d load sites are attributed to lines %r"
                                      % (val, [l for _, l in want], len(got_lines), got_lines))
                        break
        # JSON encoding: independent decoder and from_json
        j = r3.to_json()
        dec = decode_mappings(j)
        exp = [(li, col, j["sources"].index(e.source), e.source_line, e.source_column) for (li, col), e in sorted(r3.entries.items())]
        if dec != exp:
            k = next((i for i in range(min(len(dec), len(exp))) if dec[i] != exp[i]), min(len(dec), len(exp)))
            acc.violation("json_encoding", case, "independent decoding of to_json() differs from the map at entry %d: decoded %r, map %r" % (k, dec[k] if k < len(dec) else None, exp[k] if k < len(exp) else None))
        else:
            acc.counters["independent_vlq_ok"] += 1
        try:
            back = type(r3).from_json(json.loads(json.dumps(j)), target=teal)
            b2 = [(k, v.source, v.source_line, v.source_column) for k, v in sorted(back.entries.items())]
            a2 = [(k, v.source, v.source_line, v.source_column) for k, v in sorted(r3.entries.items())]
            if a2 != b2:
                k = next((i for i in range(min(len(a2), len(b2))) if a2[i] != b2[i]), 0)
                acc.violation("json_roundtrip", case, "from_json(to_json()) differs at entry %d: %r vs %r" % (k, b2[k] if k < len(b2) else None, a2[k] if k < len(a2) else None))
            else:
                acc.counters["json_roundtrip_ok"] += 1
        except Exception as e:
            acc.violation("json_roundtrip", case, "from_json(to_json()) raised %s: %s" % (type(e).__name__, str(e)[:200]))
        # annotated TEAL without comments == plain TEAL
        ann = sm.annotated_teal
        if ann is not None:
            if G.strip_comments(ann) != G.strip_comments(teal):
                acc.violation("annotated_teal", case, "annotated TEAL with comments removed differs from the plain TEAL")
            else:
                acc.counters["annotated_ok"] += 1
    # ---- 6. the same program mapped again from another working directory: the entries must still name existing files (and the
    # same ones) when resolved against the new map's own source root
    if desc.get("elsewhere") and not router:
        here = os.getcwd()
        alt = os.path.join(directory, "elsewhere%d" % (acc.counters["mapped_again_from_another_cwd"] % 2))
        os.makedirs(alt, exist_ok=True)
        os.chdir(alt)
        try:
            res2 = pt.Compilation(prog, pt.Mode.Application, version=desc["version"], assemble_constants=asm, **tt).compile(with_sourcemap=True, teal_filename="gen.teal")
            r3b = res2.sourcemap.r3_sourcemap
            first = maps[0][1].r3_sourcemap
            root1, root2 = first.source_root or here, r3b.source_root or ""
            acc.counters["mapped_again_from_another_cwd"] += 1
            tree_files = {os.path.realpath(f) for f in desc["files"]}
            if res2.teal != plain:
                acc.violation("sourcemap_changes_teal", dict(case, after_chdir=True), "TEAL of the second mapped compilation (other working directory) differs")
            for k, e in sorted(r3b.entries.items()):
                p2 = os.path.normpath(os.path.join(root2, e.source)) if e.source is not None else None
                e1 = first.entries.get(k)
                p1 = os.path.normpath(os.path.join(root1, e1.source)) if e1 is not None and e1.source is not None else None
                if p2 is None or not os.path.isfile(p2):
                    acc.violation("map_entry", dict(case, after_chdir=True), "mapped again after chdir: entry %d names %r under source root %r, which is not an existing file" % (k[0], e.source, root2))
                    break
                in_tree = os.path.realpath(p2) in tree_files
                # (lines attributed to the Compilation(...) call itself sit in this file, at two different call sites)
                if p1 is None or os.path.realpath(p1) != os.path.realpath(p2) or (in_tree and e1.source_line != e.source_line):
                    acc.violation("map_entry", dict(case, after_chdir=True), "mapped again after chdir: entry %d points at %s:%d, the first map pointed at %s:%d"
                                  % (k[0], p2, e.source_line + 1, p1, (e1.source_line + 1) if e1 else -1))
                    break
            else:
                acc.counters["second_cwd_entries_resolve"] += 1
        except PT_ERRORS as e:
            acc.violation("sourcemap_request_fails", dict(case, after_chdir=True), "mapped compilation from another working directory raises %s: %s" % (type(e).__name__, " ".join(str(e).split())[:200]))
        finally:
            os.chdir(here)
    acc.sample({"modules": len(desc["files"]), "entry": desc["entry"], "version": desc["version"], "lines": desc["nlines"], "teal_lines": len(plain.split("\n"))}, cap=4)


def synthetic(pt, acc, rng):
    """Codec alone: R3SourceMap -> to_json -> independent decoder / from_json with hostile deltas."""
    from pyteal.compiler.sourcemap import R3SourceMap, R3SourceMapping
    acc.evaluations += 1
    nsrc = rng.choice([1, 2, 3, 40])
    n = rng.choice([1, 2, 10, 60])
    big = [0, 1, 2, 15, 16, 31, 32, 33, 511, 512, 1023, 1024, 2**15, 2**15 + 1, 2**20, 2**31 - 1, 2**31, 2**40]
    entries = {}
    for li in range(n):
        entries[(li, 0)] = R3SourceMapping(line=li, column=0, source="s%d.py" % rng.randrange(nsrc), source_line=rng.choice(big) if rng.random() < .7 else rng.randrange(100),
                                           source_column=rng.choice(big) if rng.random() < .5 else rng.randrange(80))
    index = [(0,) for _ in range(n)]
    try:
        r3 = R3SourceMap(filename="t.teal", source_root="", entries=entries, index=index)
        j = r3.to_json()
        dec = decode_mappings(j)
        exp = [(li, 0, j["sources"].index(e.source), e.source_line, e.source_column) for (li, _), e in sorted(entries.items())]
        if dec != exp:
            k = next((i for i in range(min(len(dec), len(exp))) if dec[i] != exp[i]), 0)
            acc.violation("json_encoding", {"synthetic": [[e.source, e.source_line, e.source_column] for e in entries.values()]},
                          "independent decoding differs at entry %d: %r vs %r" % (k, dec[k] if k < len(dec) else None, exp[k] if k < len(exp) else None))
            return
        back = R3SourceMap.from_json(json.loads(json.dumps(j)))
        b2 = [(k, v.source, v.source_line, v.source_column) for k, v in sorted(back.entries.items())]
        a2 = [(k, v.source, v.source_line, v.source_column) for k, v in sorted(entries.items())]
        if a2 != b2:
            k = next((i for i in range(min(len(a2), len(b2))) if a2[i] != b2[i]), 0)
            acc.violation("json_roundtrip", {"synthetic": [[e.source, e.source_line, e.source_column] for e in entries.values()]},
                          "from_json(to_json()) differs at entry %d: %r vs %r" % (k, b2[k] if k < len(b2) else None, a2[k] if k < len(a2) else None))
            return
    except Exception as e:
        acc.violation("codec_crash", {"synthetic": [[e2.source, e2.source_line, e2.source_column] for e2 in entries.values()]}, "%s: %s" % (type(e).__name__, str(e)[:200]))
        return
    acc.counters["synthetic_maps_ok"] += 1


def replay_synthetic(pt, acc, rows):
    from pyteal.compiler.sourcemap import R3SourceMap, R3SourceMapping
    acc.evaluations += 1
    entries = {(i, 0): R3SourceMapping(line=i, column=0, source=src, source_line=sl, source_column=sc) for i, (src, sl, sc) in enumerate(rows)}
    try:
        r3 = R3SourceMap(filename="t.teal", source_root="", entries=entries, index=[(0,) for _ in rows])
        j = r3.to_json()
        dec = decode_mappings(j)
        exp = [(li, 0, j["sources"].index(e.source), e.source_line, e.source_column) for (li, _), e in sorted(entries.items())]
        back = R3SourceMap.from_json(json.loads(json.dumps(j)))
        b2 = [(k, v.source, v.source_line, v.source_column) for k, v in sorted(back.entries.items())]
        a2 = [(k, v.source, v.source_line, v.source_column) for k, v in sorted(entries.items())]
        if dec != exp:
            acc.violation("json_encoding", {"synthetic": rows}, "independent decoding differs from the map")
        elif a2 != b2:
            acc.violation("json_roundtrip", {"synthetic": rows}, "from_json(to_json()) differs from the map")
        else:
            acc.counters["synthetic_maps_ok"] += 1
    except Exception as e:
        acc.violation("codec_crash", {"synthetic": rows}, "%s: %s" % (type(e).__name__, str(e)[:200]))


def run_shard(shard):
    import sys
    import pyteal as pt
    from .. import pool, smgen
    from ..common import Acc, rng_for
    acc = Acc()
    rng = rng_for(shard.get("seed", 0), "c15", shard.get("shard", 0))
    d = tempfile.mkdtemp(prefix="c15-", dir=os.environ.get("VERIF_TMP", "/var/tmp"))
    try:
        sys.path.insert(0, d)
        os.chdir(d)
        if "replay" in shard:
            c = shard["replay"]
            if "sources" in c:
                files = []
                names = ["%s" % c["tree"]["main"]] + ["%s" % (c["tree"]["main"][:-1] + str(i)) for i in range(1, len(c["sources"]))]
                for nm, text in zip(names, c["sources"]):
                    p = os.path.join(d, nm + ".py")
                    open(p, "w").write(text)
                    files.append(p)
                descs = [dict(c["tree"], files=files, mode="app")]
            else:
                descs = []
                if "synthetic" in c:
                    # synthetic maps are regenerated from their entry list
                    replay_synthetic(pt, acc, c["synthetic"])
        else:
            descs = [smgen.generate(rng, d, "%d_%d" % (shard["shard"], i)) for i in range(shard["n"])]
        # gate-off process
        cases_p, out_p = os.path.join(d, "cases.json"), os.path.join(d, "off.json")
        json.dump([{k: x.get(k) for k in ("main", "entry", "version", "assemble", "typetrack")} for x in descs], open(cases_p, "w"))
        env = pool.worker_env()
        cp = subprocess.run([pool.PY, "-m", "vlib.c15off", d, cases_p, out_p], cwd=pool.VERIF, env=env, timeout=600, stdout=subprocess.PIPE, stderr=subprocess.PIPE, text=True)
        off = json.load(open(out_p)) if os.path.exists(out_p) else {}
        if not off:
            acc.extra["gate_off_error"] = (cp.stderr or "")[-300:]
        for desc in descs:
            check_tree(pt, acc, desc, d, off, rng)
        if "replay" not in shard:
            for _ in range(shard["synthetic"]):
                synthetic(pt, acc, rng)
    finally:
        os.chdir(pool.VERIF)
        import shutil
        shutil.rmtree(d, ignore_errors=True)
    return acc.result()


MANIFEST_ENTRY = {
    "technique": "runtime monitor: generated multi-module Python sources with one marker constant per line compiled with and without source maps (feature gate on and off in separate processes); map entries, marker attribution, Revision-3 JSON (independent VLQ decoder) and annotated TEAL observed",
    "text": ("Generated source trees - subroutines, ABI methods and routers spread over up to three modules, multi-line calls, lambdas, "
             "comprehensions, filler blocks of thousands of lines - carry one unique marker constant per physical line. Each tree is compiled "
             "plainly and with a source map (gate on) and plainly in a process with the gate off: the three TEAL texts must be byte-identical; "
             "the map must have exactly one entry per TEAL line, each pointing at an existing line of an existing file; every marker's TEAL "
             "line must be attributed to the file and line it was written on; the Revision-3 JSON must decode (independent VLQ decoder, and "
             "from_json) to the same associations; annotated TEAL minus comments must equal the TEAL. Synthetic maps with extreme deltas "
             "exercise the codec. Held = held on the trees listed."),
    "note": "Trusted: the independent VLQ decoder; vlib/tealgrammar.py.",
}
