"""C16 - WideRatio is exact or fails, never wraps.

Monitor: the compiled WideRatio program is executed on the reference AVM for boundary-biased factor vectors;
the oracle is Python integer arithmetic on the property's own statement (running products < 2^128 left to
right, denominator product non-zero, quotient < 2^64 -> exact floor; anything else -> the program must fail).
"""
from .. import avm

SPEC = {
    "level": "exploration",
    "rule": ("factor-count pairs (1..6 x 1..6, not both 1) x versions 5..10 x factors given as run-time values "
             "(application args) or compile-time constants; factor vectors boundary-biased (0,1,2^32+-1,2^63,2^64-1, "
             "products straddling 2^64/2^128, quotients straddling 2^64). A case is non-trivial when the numerator "
             "product needs more than 64 bits, or the expected outcome is failure for an overflow reason "
             "(running product >= 2^128 or quotient >= 2^64); distinct = distinct (numerators, denominators, variant)."),
    "assumptions": ["reference AVM semantics of mulw/addw/divmodw/assert (vlib/prims.py, calibrated by setup gates)",
                    "Python arbitrary-precision integers"],
    "min_evaluations": {"quick": 5000, "thorough": 50000},
    "must_reach": ["expected_value", "expected_fail_overflow", "expected_fail_quotient", "reuse_compiled_twice", "reuse_used_twice", "reuse_shared_lists", "nested_numerator", "nested_denominator", "nested_expected_value", "nested_expected_fail"],
}

B = [0, 1, 2, 3, 2**32 - 1, 2**32, 2**32 + 1, 2**63, 2**64 - 1, 2**64 - 2, 2**16, 10**9, 12345678901234567, 2**63 - 1,
     2**31, 2**48 + 1, 6700417, 641, 4294967291]


def plan(tier, seed):
    n = 16 if tier == "quick" else 64
    per = 5000 if tier == "quick" else 20000
    return [{"seed": seed, "shard": i, "n": per, "tier": tier} for i in range(n)]


def expected(ns, ds):
    """None = must fail, else the exact quotient."""
    def prod(xs):
        p = 1
        for x in xs:
            p *= x
            if p >= 2**128:
                return None
        return p
    pn, pd = prod(ns), prod(ds)
    if pn is None or pd is None:
        return None, "overflow"
    if pd == 0:
        return None, "zero"
    q = pn // pd
    if q >= 2**64:
        return None, "quotient"
    return q, "value"


def gen_vec(rng, nn, nd):
    def val():
        r = rng.random()
        if r < .55:
            return rng.choice(B)
        if r < .8:
            return rng.randrange(2 ** rng.randrange(1, 65))
        return max(0, min(2**64 - 1, rng.choice(B) + rng.randrange(-2, 3)))
    ns = [val() for _ in range(nn)]
    ds = [val() for _ in range(nd)]
    r = rng.random()
    if r < .25:
        ns = [rng.choice([1, 2, 3, 2**32, 2**21 + 1, 2**64 - 1]) for _ in range(nn)]
    if rng.random() < .5:
        ds = [rng.choice([1, 1, 2, 3, 2**16, 2**32, 2**64 - 1]) for _ in range(nd)]
    if rng.random() < .2 and nn >= 2:
        # numerator product straddling 2^128 / quotient straddling 2^64
        ns = [2**64 - 1] * 2 + [1] * (nn - 2)
        rng.shuffle(ns)
        if rng.random() < .5:
            ds = [rng.choice([2**64 - 1, 2**64 - 2, 2**63, 1])] + [1] * (nd - 1)
            rng.shuffle(ds)
    return ns, ds


def build(pt, nn, nd, version, consts=None, assemble=False):
    if consts is None:
        N = [pt.Btoi(pt.Txn.application_args[i]) for i in range(nn)]
        D = [pt.Btoi(pt.Txn.application_args[nn + i]) for i in range(nd)]
    else:
        N = [pt.Int(x) for x in consts[0]]
        D = [pt.Int(x) for x in consts[1]]
    if assemble:
        # constant factors assembled into a constant block; the same constants occur again (in another order) in front of the ratio,
        # so that they repeat and their frequency ranks differ from their order of appearance
        again = [pt.Pop(pt.Int(x)) for x in reversed(list(consts[0]) + list(consts[1]))] + [pt.Pop(pt.Int(x)) for x in consts[1][:2]]
        prog = pt.Seq(*again, pt.Log(pt.Itob(pt.WideRatio(N, D))), pt.Int(1))
        return pt.compileTeal(prog, pt.Mode.Application, version=version, assembleConstants=True)
    prog = pt.Seq(pt.Log(pt.Itob(pt.WideRatio(N, D))), pt.Int(1))
    return pt.compileTeal(prog, pt.Mode.Application, version=version)


def run_case(pt, progs, ns, ds, version, variant):
    nn, nd = len(ns), len(ds)
    if variant in ("const", "const_assembled"):
        teal = build(pt, nn, nd, version, (ns, ds), assemble=(variant == "const_assembled"))
        prog = avm.parse_any(teal)
        args = []
    else:
        key = (nn, nd, version)
        if key not in progs:
            progs[key] = avm.parse_any(build(pt, nn, nd, version))
        prog = progs[key]
        args = [x.to_bytes(8, "big") for x in ns + ds]
    r = avm.run(prog, avm.Ctx(group=[{"ApplicationArgs": args}]))
    got = int.from_bytes(r.logs[0], "big") if r.status == "approve" and r.logs else None
    return got, r


def check_one(pt, progs, acc, ns, ds, version, variant):
    from ..common import h
    exp, why = expected(ns, ds)
    got, r = run_case(pt, progs, ns, ds, version, variant)
    acc.evaluations += 1
    acc.counters["expected_" + ("value" if exp is not None else "fail_" + why)] += 1
    case = {"ns": [str(x) for x in ns], "ds": [str(x) for x in ds], "version": version, "variant": variant}
    pn = 1
    for x in ns:
        pn *= x
    if (exp is not None and pn >= 2**64) or why in ("overflow", "quotient"):
        acc.nontrivial.add(h(case))
    if r.san:
        acc.violation("sanitizer", case, "AVM sanitizer: %r" % (r.san[:2],))
    if got != exp or (exp is None and r.status != "fail"):
        acc.violation("wrong_result" if exp is not None else "no_failure", case,
                      "expected %s (%s) got %s status=%s err=%s" % (exp, why, got, r.status, r.error))
    acc.sample({"numerators": case["ns"], "denominators": case["ds"], "version": version, "variant": variant,
                "expected": None if exp is None else str(exp), "observed": None if got is None else str(got)})


def check_reuse(pt, acc, rng, ns, ds, version):
    """The same WideRatio object (or the same Python factor lists) used for more than one code generation: compiled twice, used
    twice in one program, two ratios over one shared list.  Every generation must compute the same exact quotient."""
    from ..common import h
    exp, why = expected(ns, ds)
    how = rng.choice(["compiled_twice", "used_twice", "shared_lists"])
    nn, nd = len(ns), len(ds)
    N = [pt.Btoi(pt.Txn.application_args[i]) for i in range(nn)]
    D = [pt.Btoi(pt.Txn.application_args[nn + i]) for i in range(nd)]
    args = [x.to_bytes(8, "big") for x in ns + ds]
    case = {"ns": [str(x) for x in ns], "ds": [str(x) for x in ds], "version": version, "variant": "reuse:" + how}
    try:
        if how == "compiled_twice":
            r = pt.WideRatio(N, D)
            prog = pt.Seq(pt.Log(pt.Itob(r)), pt.Int(1))
            pt.compileTeal(prog, pt.Mode.Application, version=version)
            teal = pt.compileTeal(prog, pt.Mode.Application, version=rng.choice([5, 6, 8, 10]))
            nlogs = 1
        elif how == "used_twice":
            r = pt.WideRatio(N, D)
            teal = pt.compileTeal(pt.Seq(pt.Log(pt.Itob(r)), pt.Log(pt.Itob(r)), pt.Int(1)), pt.Mode.Application, version=version)
            nlogs = 2
        else:
            r1, r2 = pt.WideRatio(N, D), pt.WideRatio(N, D)
            teal = pt.compileTeal(pt.Seq(pt.Log(pt.Itob(r1)), pt.Log(pt.Itob(r2)), pt.Int(1)), pt.Mode.Application, version=version)
            nlogs = 2
    except Exception as e:
        acc.evaluations += 1
        acc.violation("reuse_compile_error", case, "second code generation over the same WideRatio/lists raised %s: %s" % (type(e).__name__, str(e)[:200]))
        return
    r = avm.run(avm.parse_any(teal), avm.Ctx(group=[{"ApplicationArgs": args}]))
    acc.evaluations += 1
    acc.counters["reuse_" + how] += 1
    got = [int.from_bytes(l, "big") for l in r.logs] if r.status == "approve" else None
    want = None if exp is None else [exp] * nlogs
    if got != want or (exp is None and r.status != "fail"):
        acc.violation("wrong_result" if exp is not None else "no_failure", case, "expected %s (%s) got %s status=%s err=%s" % (want, why, got, r.status, r.error))
    elif exp is not None:
        acc.nontrivial.add(h(case))


def check_nested(pt, acc, rng, version):
    """A WideRatio as a factor of another WideRatio (numerator or denominator position): the inner ratio is a value of its own -
    floored, and failing when its quotient needs more than 64 bits - before the outer ratio uses it."""
    from ..common import h
    small = [1, 2, 3, 5, 7, 10, 2**16, 2**32 - 1, 2**32, 2**63, 2**64 - 1]
    ins = [rng.choice(small) for _ in range(rng.randrange(1, 4))]
    ids = [rng.choice(small[:8]) for _ in range(rng.randrange(1, 3))]
    ons = [rng.choice(small) for _ in range(rng.randrange(0, 3))]
    ods = [rng.choice(small[:9]) for _ in range(rng.randrange(1, 3))]
    where = rng.choice(["numerator", "numerator", "denominator"])
    if len(ins) == 1 and len(ids) == 1:
        ins.append(rng.choice(small))  # (a 1x1 ratio is refused by the constructor: "use basic division")
    if where == "denominator" and not ons:
        ons.append(rng.choice(small))
    if len(ons) + (where == "numerator") == 1 and len(ods) + (where == "denominator") == 1:
        ons.append(rng.choice(small))
    pos = rng.randrange(0, (len(ons) if where == "numerator" else len(ods)) + 1)
    inner, why_in = expected(ins, ids)
    if inner is None:
        exp, why = None, "inner_" + why_in
    else:
        N2, D2 = list(ons), list(ods)
        (N2 if where == "numerator" else D2).insert(pos, inner)
        exp, why = expected(N2, D2)
    case = {"variant": "nested", "inner": [[str(x) for x in ins], [str(x) for x in ids]], "outer": [[str(x) for x in ons], [str(x) for x in ods]], "where": where, "pos": pos, "version": version}
    acc.evaluations += 1
    args = [x.to_bytes(8, "big") for x in ins + ids + ons + ods]
    A = [pt.Btoi(pt.Txn.application_args[i]) for i in range(len(args))]
    a_in, a_id = A[:len(ins)], A[len(ins):len(ins) + len(ids)]
    a_on, a_od = A[len(ins) + len(ids):len(ins) + len(ids) + len(ons)], A[len(ins) + len(ids) + len(ons):]
    try:
        innerx = pt.WideRatio(a_in, a_id)
        N, D = list(a_on), list(a_od)
        (N if where == "numerator" else D).insert(pos, innerx)
        teal = pt.compileTeal(pt.Seq(pt.Log(pt.Itob(pt.WideRatio(N, D))), pt.Int(1)), pt.Mode.Application, version=version)
    except Exception as e:
        acc.violation("nested_compile_error", case, "%s: %s" % (type(e).__name__, str(e)[:200]))
        return
    r = avm.run(avm.parse_any(teal), avm.Ctx(group=[{"ApplicationArgs": args}]))
    got = int.from_bytes(r.logs[0], "big") if r.status == "approve" and r.logs else None
    acc.counters["nested_" + where] += 1
    acc.counters["nested_expected_" + ("value" if exp is not None else "fail")] += 1
    if got != exp or (exp is None and r.status != "fail"):
        acc.violation("wrong_result" if exp is not None else "no_failure", case, "nested ratio: expected %s (%s) got %s status=%s err=%s" % (exp, why, got, r.status, r.error))
    elif exp is not None:
        acc.nontrivial.add(h(case))


def run_shard(shard):
    import pyteal as pt
    from ..common import Acc, rng_for, reset_globals
    acc = Acc()
    if "replay" in shard:
        c = shard["replay"]
        if c["variant"] == "nested":
            import random
            for k in range(3000):
                check_nested(pt, acc, random.Random(k), c["version"])
            return acc.result()
        if c["variant"].startswith("reuse"):
            check_reuse(pt, acc, rng_for(0, "replay"), [int(x) for x in c["ns"]], [int(x) for x in c["ds"]], c["version"])
            return acc.result()
        check_one(pt, {}, acc, [int(x) for x in c["ns"]], [int(x) for x in c["ds"]], c["version"], c["variant"])
        return acc.result()
    rng = rng_for(shard["seed"], "c16", shard["shard"])
    progs = {}
    for it in range(shard["n"]):
        reset_globals()
        nn, nd = rng.randrange(1, 7), rng.randrange(1, 7)
        if nn == 1 and nd == 1:
            continue
        version = rng.choice([5, 6, 7, 8, 9, 10])
        variant = rng.choice(["const", "const_assembled"]) if rng.random() < .1 else "runtime"
        ns, ds = gen_vec(rng, nn, nd)
        if it % 10 == 0:
            check_reuse(pt, acc, rng, ns, ds, version)
            continue
        if it % 10 == 5:
            check_nested(pt, acc, rng, version)
            continue
        check_one(pt, progs, acc, ns, ds, version, variant)
    acc.counters["programs_compiled"] = len(progs)
    return acc.result()

MANIFEST_ENTRY = {
    "technique": "runtime differential: compiled WideRatio executed on a sanitizing reference AVM vs Python big-integer oracle",
    "text": ("The real compiler's WideRatio lowering is executed on tens of thousands of boundary-biased factor vectors per run "
             "(all factor-count pairs, versions 5-10, run-time and constant factors) and every outcome is compared with exact "
             "integer arithmetic; held means held on those executions. Exploration is the right level: the input space is "
             "2^64 per factor, the failure modes (carry loss, missed overflow assert, wrong divmodw word) are boundary "
             "phenomena that biased sampling reaches."),
    "note": "Trusted: vlib/prims.py semantics of mulw/divmodw/addw/assert (calibrated by setup gates against golden programs), Python ints.",
}
