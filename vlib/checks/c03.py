"""C03 - compile options change cost and shape, never behaviour.

Monitor: pure differential between compilations of one program under different user-selectable options (scratch-slot
optimisation on/off, frame pointers on/off, target version).  Baseline: scratch_slots=False, frame_pointers=False at the
same version (and the lowest compiling version across versions).  Observed per execution: verdict, return value, ordered
effects, user-numbered slots, and - between compilations that share a calling convention - the caller-visible stack after
every retsub and at program exit.  A probe on the optimiser's deletion routine records which slots lost how many stores and
loads; it is used to attribute the one known optimiser defect (and nothing else) by mechanism + counterfactual.
"""
from .. import recipes

RECURSION_LIMIT = 6000

KNOWN = "C03-optimizer-unpaired-store"

SPEC = {
    "level": "exploration",
    "rule": ("C01/C02-style recipes plus an optimiser-biased family (temporaries stored once and loaded once right away, loaded twice, "
             "stored in one branch and loaded in another, reserved and dynamically indexed slots, ABI temporaries, variables shared with "
             "subroutines) and the repository's example programs (examples/**, tests/teal/rps.py, algobank router; contexts built from the programs' own byte literals) compiled under every option setting {scratch_slots on/off} x {frame_pointers on/off/default} at 1-2 versions "
             "and run on 3 contexts each.  An evaluation is one execution of a non-baseline compilation compared with the baseline "
             "execution on the same context; a recipe is non-trivial when the optimiser deleted at least one slot access in one of its "
             "compilations or the two calling conventions both executed a call; distinct = distinct recipe hashes."),
    "assumptions": ["vlib/avm.py semantics", "baseline = unoptimised scratch-convention compilation of the same program (C01/C02 judge the baseline itself)"],
    "min_evaluations": {"quick": 10000, "thorough": 150000},
    "must_reach": ["agree", "reused_options_object", "corpus_agree", "corpus_approve", "optimizer_deleted_accesses", "setting_ss1_fp0", "setting_ss0_fp1", "setting_ss1_fp1", "cross_version_agree", "stack_traces_compared"],
    "shard_timeout": {"quick": 2400, "thorough": 14400},
}


def plan(tier, seed):
    n = 16 if tier == "quick" else 64
    per = 170 if tier == "quick" else 1800
    return [{"seed": seed, "shard": i, "nshards": n, "n": per, "tier": tier} for i in range(n)]


# ------------------------------------------------------------------------------------------------ optimiser probe
class OptProbe:
    """Wraps pyteal.compiler.optimizer.optimizer._remove_extraneous_slot_access (looked up as a module global by its caller)."""

    def __init__(self):
        import pyteal.compiler.optimizer.optimizer as O
        from pyteal.ir import Op, TealBlock, TealOp
        self.O, self.Op, self.TealBlock, self.TealOp = O, Op, TealBlock, TealOp
        self.orig = O._remove_extraneous_slot_access
        self.neutralise = False
        self.events = []  # (n_stores, n_loads) per removed slot
        self.calls = 0
        probe = self

        def wrapper(start, remove):
            probe.calls += 1
            keep = set()
            for slot in remove:
                ns = nl = 0
                for block in TealBlock.Iterate(start):
                    for op in block.ops:
                        if type(op) is TealOp and op.op in (Op.store, Op.load) and slot in set(op.getSlots()):
                            if op.op == Op.store:
                                ns += 1
                            else:
                                nl += 1
                probe.events.append((ns, nl))
                if probe.neutralise and ns > nl:
                    keep.add(slot)
            return probe.orig(start, set(remove) - keep if keep else remove)
        O._remove_extraneous_slot_access = wrapper

    def reset(self, neutralise=False):
        self.events = []
        self.neutralise = neutralise


def known_mechanism(events):
    """The known defect's signature in one compilation: some slot lost more stores than loads, and no slot lost more loads than stores
    (the unchanged optimiser deletes all stores and exactly the one adjacent load, so that never happens there; a compilation where it
    does happen is never attributed)."""
    return any(ns > nl for ns, nl in events) and not any(ns < nl for ns, nl in events)


# ------------------------------------------------------------------------------------------------ optimiser-biased family
def opt_family(rng, version):
    """Programs made of the shapes the slot optimiser and the allocator look at.  The load is the first operand of the consuming
    expression, so that `store x; load x` are adjacent ops of one block - the only pattern the optimiser rewrites."""
    g = recipes.Gen(rng, version=version, mode="app", allow_subs=True, min_subs=rng.choice([0, 1]), rec_p=.3)
    r = g.program()
    sc_u = [d["id"] for d in r["vars"] if d["t"] == "u" and d.get("kind", "sv") == "sv" and not d["id"].startswith("gc")]
    extra_vars, stmts = [], []
    n = rng.randrange(2, 7)
    for k in range(n):
        vid = "t%d" % k
        shape = rng.choice(["pair", "pair", "pair_twice_loaded", "branch_store", "never_loaded", "reserved_pair", "abi_pair", "pair_in_loop",
                            "pair_bytes", "restore_existing"])
        val = g.u(1, {"u": sc_u, "b": [], "params": []})
        tag = ["bytes", ("t%d" % k).encode().hex()]
        if shape == "pair":
            extra_vars.append({"id": vid, "t": "u", "kind": "sv", "slot": None})
            stmts += [["store", vid, val], ["log", ["nary", "concat", [["itob", ["load", vid]], tag]]]]
        elif shape == "pair_bytes":
            extra_vars.append({"id": vid, "t": "b", "kind": "sv", "slot": None})
            stmts += [["store", vid, ["itob", val]], ["log", ["nary", "concat", [["load", vid], tag]]]]
        elif shape == "pair_twice_loaded":
            extra_vars.append({"id": vid, "t": "u", "kind": "sv", "slot": None})
            stmts += [["store", vid, val], ["log", ["nary", "concat", [["itob", ["load", vid]], tag]]],
                      ["log", ["itob", ["bin", "+", ["bin", "%", ["load", vid], ["int", 1000]], ["int", 1]]]]]
        elif shape == "branch_store":
            extra_vars.append({"id": vid, "t": "u", "kind": "sv", "slot": None})
            stmts += [["if", g.cond(1, {"u": sc_u, "b": [], "params": []}), ["store", vid, val], ["store", vid, ["int", k]]],
                      ["log", ["nary", "concat", [["itob", ["load", vid]], tag]]]]
        elif shape == "never_loaded":
            extra_vars.append({"id": vid, "t": "u", "kind": "sv", "slot": None})
            stmts += [["store", vid, val], ["log", tag]]
        elif shape == "reserved_pair":
            used = {d.get("slot") for d in r["vars"] + extra_vars}
            free = [x for x in [3, 7, 77, 150, 201, 253] if x not in used]
            extra_vars.append({"id": vid, "t": "u", "kind": "sv", "slot": rng.choice(free)})
            stmts += [["store", vid, val], ["log", ["nary", "concat", [["itob", ["load", vid]], tag]]]]
        elif shape == "abi_pair" and version >= 5:
            extra_vars.append({"id": vid, "t": rng.choice(["uint64", "uint16", "bool"]), "kind": "abi"})
            stmts += [["store", vid, ["bin", "%", val, ["int", 2]]], ["log", ["nary", "concat", [["itob", ["load", vid]], tag]]]]
        elif shape == "pair_in_loop":
            extra_vars.append({"id": vid, "t": "u", "kind": "sv", "slot": None})
            cid = "tc%d" % k
            extra_vars.append({"id": cid, "t": "u", "kind": "sv", "slot": None})
            stmts += [["for", ["store", cid, ["int", 0]], ["bin", "<", ["load", cid], ["int", rng.choice([1, 2, 3])]],
                       ["store", cid, ["bin", "+", ["load", cid], ["int", 1]]],
                       ["seq", [["store", vid, ["bin", "+", val, ["load", cid]]], ["log", ["nary", "concat", [["itob", ["load", vid]], tag]]]]]]]
        elif shape == "restore_existing" and sc_u:
            # an existing variable stored again and loaded right away (its other loads keep the optimiser away; when there are
            # none this is the known unpaired-store shape)
            v = rng.choice(sc_u)
            stmts += [["store", v, val], ["log", ["nary", "concat", [["itob", ["load", v]], tag]]]]
    r["vars"] = r["vars"] + extra_vars
    # splice the family statements at random positions of main (after the initialisers)
    ninit = 0
    for i, st in enumerate(r["main"]):
        if st[0] in ("dset", "dstore") or (st[0] == "store" and isinstance(st[2], list) and st[2][0] in ("int", "bytes")):
            ninit = i + 1
    pos = rng.randrange(ninit, len(r["main"]) + 1)
    r["main"] = r["main"][:pos] + stmts + r["main"][pos:]
    return r


def settings_for(version):
    s = [(True, False), (None, None)]
    if version >= 8:
        s += [(False, True), (True, True)]
    return s


def stack_trace(got):
    """Caller-visible stacks after every retsub that returns into the main routine.  (Returns into a re-entrant routine are not
    compared: there the stack holds the caller's spilled locals, and a local the optimiser removed is legitimately not spilled.)"""
    return [(t[0], t[1], tuple(t[2])) for t in got.callret or [] if t[0] == "ret" and t[3] == 0]


def same(a, b, user_slots):
    """Differences between two AVM outcomes ([] = same behaviour)."""
    out = []
    if a.status != b.status:
        return ["verdict: baseline %s (%s) vs %s (%s)" % (a.status, a.error or a.ret, b.status, b.error or b.ret)]
    if a.status == "fail":
        return out
    if a.ret != b.ret:
        out.append("return value: baseline %r vs %r" % (a.ret, b.ret))
    if a.effects != b.effects:
        i = 0
        while i < min(len(a.effects), len(b.effects)) and a.effects[i] == b.effects[i]:
            i += 1
        out.append("effects differ at #%d: baseline %r vs %r" % (i, a.effects[i] if i < len(a.effects) else None, b.effects[i] if i < len(b.effects) else None))
    for s in user_slots:
        if a.scratch[s] != b.scratch[s]:
            out.append("user slot %d: baseline %r vs %r" % (s, a.scratch[s], b.scratch[s]))
    return out


def check_recipe(acc, probe, recipe, versions, ctxs, origin, only=None, reuse_pool=None):
    from .. import rcase
    from ..common import h
    key = h(recipe)
    user_slots = [d["slot"] for d in recipe.get("vars", []) if d.get("slot") is not None and d.get("kind", "sv") == "sv"]
    info = rcase.routine_info_for(recipe)
    first_base = None
    for version in versions:
        probe.reset()
        base = rcase.compile_recipe(recipe, version, "app", scratch_slots=False, frame_pointers=False)
        if base.prog is None:
            acc.counters["baseline_%s:%s" % ("rejected" if base.pt_error else "crashed", base.errtype)] += 1
            continue
        bouts = []
        for cd in ctxs:
            o = rcase.run_avm(base.prog, cd, routine_info=info, trace_calls=True)
            bouts.append(o)
        if all(o.dropped for o in bouts):
            acc.counters["dropped_baseline"] += 1
            continue
        # across versions: compare baseline with the first (lowest) version's baseline
        if first_base is None:
            first_base = (version, bouts)
        else:
            for cd, o0, o1 in zip(ctxs, first_base[1], bouts):
                if o0.dropped or o1.dropped or rcase.is_resource(o0) or rcase.is_resource(o1):
                    continue
                acc.evaluations += 1
                d = same(o0, o1, user_slots)
                if d:
                    acc.violation("version_changes_behaviour", {"recipe": recipe, "versions": [first_base[0], version], "ctx": cd, "origin": origin,
                                                                 "setting": [False, False]}, "v%d vs v%d: %s" % (first_base[0], version, "; ".join(d)[:800]))
                else:
                    acc.counters["cross_version_agree"] += 1
        for ss, fp in settings_for(version):
            if only is not None and [ss, fp] != only:
                continue
            probe.reset()
            # every other compilation reuses one OptimizeOptions object per setting for the whole shard (a user may keep one
            # options object for all their programs): state left on it by an earlier compilation must not matter
            shared = None
            if reuse_pool is not None and (hash(key) + version) % 2 == 0:
                import pyteal as pt
                shared = reuse_pool.setdefault((ss, fp), pt.OptimizeOptions(scratch_slots=ss, frame_pointers=fp))
                acc.counters["reused_options_object"] += 1
            c = rcase.compile_recipe(recipe, version, "app", scratch_slots=ss, frame_pointers=fp, optimize_obj=shared)
            events = list(probe.events)
            case0 = {"recipe": recipe, "versions": [version], "origin": origin, "setting": [ss, fp], "reused_options": shared is not None}
            if c.prog is None:
                # the baseline compiled: an option must not make the program uncompilable (except frame pointers below v8: not generated)
                acc.evaluations += 1
                acc.violation("option_breaks_compilation", case0, "baseline compiles, setting scratch_slots=%s frame_pointers=%s raises %s: %s"
                              % (ss, fp, c.errtype, (c.err or "")[:300]))
                continue
            eff_ss = ss if ss is not None else version >= 9
            eff_fp = fp if fp is not None else version >= 8
            acc.counters["setting_ss%d_fp%d" % (eff_ss, eff_fp)] += 1
            if events:
                acc.counters["optimizer_deleted_accesses"] += sum(a + b for a, b in events)
                acc.nontrivial.add(key)
            for cd, b in zip(ctxs, bouts):
                if b.dropped or rcase.is_resource(b):
                    continue
                got = rcase.run_avm(c.prog, cd, routine_info=info, trace_calls=True)
                case = dict(case0, ctx=cd)
                if got.dropped == "avm_timeout":
                    acc.evaluations += 1
                    acc.violation("nontermination", case, "baseline finished, this setting still running after 200000 instructions")
                    continue
                if got.dropped:
                    acc.counters["dropped_" + got.dropped.split(":")[0]] += 1
                    continue
                if rcase.is_resource(got):
                    acc.counters["dropped_resource_limit"] += 1
                    continue
                acc.evaluations += 1
                d = same(b, got, user_slots)
                if not d and not eff_fp and b.status != "fail":
                    # same calling convention as the baseline: caller-visible stacks after each retsub and at exit must be equal
                    acc.counters["stack_traces_compared"] += 1
                    if stack_trace(b) != stack_trace(got):
                        d.append("stack after a retsub differs from the unoptimised program")
                    elif b.res.final_stack != got.res.final_stack:
                        d.append("stack at program exit differs: baseline %r vs %r" % (b.res.final_stack[-3:], got.res.final_stack[-3:]))
                if not d and got.san and b.status != "fail" and not b.san:
                    d.append("AVM sanitizer only under this setting: %r" % (got.san[:1],))
                if d:
                    unpaired = known_mechanism(events)
                    attributed = False
                    if unpaired and eff_ss:
                        # counterfactual: same compilation with the deletion restricted to exactly paired store/load
                        probe.reset(neutralise=True)
                        c2 = rcase.compile_recipe(recipe, version, "app", scratch_slots=ss, frame_pointers=fp)
                        probe.reset()
                        if c2.prog is not None:
                            g2 = rcase.run_avm(c2.prog, cd, routine_info=info, trace_calls=True)
                            if not g2.dropped and not same(b, g2, user_slots) and (eff_fp or (stack_trace(b) == stack_trace(g2) and b.res.final_stack == g2.res.final_stack)):
                                attributed = True
                    acc.violation("option_changes_behaviour", dict(case, mechanism=KNOWN if attributed else None),
                                  "scratch_slots=%s frame_pointers=%s v%d: %s" % (ss, fp, version, "; ".join(d)[:800]), teal=c.teal[-2500:])
                else:
                    acc.counters["agree"] += 1
                    if b.res is not None and b.res.calls and eff_fp:
                        acc.nontrivial.add(key)
    if len(acc.samples) < 3:
        acc.sample({"origin": origin, "versions": versions, "n_nodes": len(recipes.all_nodes(recipe)), "settings": [list(s) for s in settings_for(versions[-1])]})


def corpus_ctxs(rng, mode, teals):
    """Contexts for an example program: application arguments drawn from the byte literals the program itself compares with."""
    from .. import tealgrammar as G
    lits = [b""]
    for t in teals:
        for line in t.split("\n"):
            toks = G.tokenize(line)
            if len(toks) >= 2 and toks[0] == "byte":
                try:
                    b, _ = G.parse_bytes_args(toks[1:])
                    if len(b) <= 64:
                        lits.append(b)
                except G.ParseError:
                    pass
    out = []
    for i in range(6):
        d = recipes.gen_ctx_desc(rng, mode)
        d["args"] = [(rng.choice(lits) if rng.random() < .7 else rng.randrange(0, 20).to_bytes(8, "big")).hex() for _ in range(rng.choice([0, 1, 2, 3, 4]))]
        d["txn"]["OnCompletion"] = rng.choice([0, 0, 0, 1, 2, 4, 5])
        d["txn"]["ApplicationID"] = rng.choice([0, 77, 77])
        d["txn"]["Sender"] = rng.choice(["53" * 32, "43" * 32])  # 'C'*32 is the creator in the reference AVM
        for k in lits[:12]:
            if k and rng.random() < .3:
                d["gstate"][k.hex()] = rng.choice([0, 1, 2, 1000])
        out.append(d)
    return out


def check_corpus(acc, probe, pt, ent, version, rng):
    """Option differential on one of the repository's example programs (no recipe: pure differential)."""
    from .. import corpus, rcase
    from ..common import PT_ERRORS, h, reset_globals
    name, mode, minv, thunk = ent

    def comp(ss, fp):
        reset_globals()
        return [(lbl, rcase.G.parse_any(t), t) for lbl, t in corpus.compile_entry(pt, ent, version, ss, fp)]
    try:
        base = comp(False, False)
    except PT_ERRORS:
        acc.counters["corpus_baseline_rejected"] += 1
        return
    ctxs = corpus_ctxs(rng, mode, [t for _, _, t in base])
    bouts = [[rcase.run_avm(p, cd, trace_calls=True) for cd in ctxs] for _, p, _ in base]
    for ss, fp in settings_for(version):
        probe.reset()
        try:
            var = comp(ss, fp)
        except PT_ERRORS as e:
            acc.evaluations += 1
            acc.violation("option_breaks_compilation", {"corpus": name, "versions": [version], "setting": [ss, fp]}, "%s: %s" % (type(e).__name__, str(e)[:200]))
            continue
        events = list(probe.events)
        eff_fp = fp if fp is not None else version >= 8
        for (lbl, p, _), outs in zip(var, bouts):
            for cd, b in zip(ctxs, outs):
                if b.dropped or rcase.is_resource(b):
                    acc.counters["dropped_corpus_ctx"] += 1
                    continue
                got = rcase.run_avm(p, cd, trace_calls=True)
                if got.dropped or rcase.is_resource(got):
                    acc.counters["dropped_corpus_ctx"] += 1
                    continue
                acc.evaluations += 1
                d = same(b, got, [])
                if not d and not eff_fp and b.status != "fail" and (stack_trace(b) != stack_trace(got) or b.res.final_stack != got.res.final_stack):
                    d.append("caller-visible stack differs from the unoptimised program")
                if d:
                    acc.violation("option_changes_behaviour", {"corpus": lbl, "versions": [version], "setting": [ss, fp], "ctx": cd,
                                                               "mechanism": KNOWN if known_mechanism(events) else None},
                                  "%s scratch_slots=%s frame_pointers=%s v%d: %s" % (lbl, ss, fp, version, "; ".join(d)[:600]))
                else:
                    acc.counters["agree"] += 1
                    acc.counters["corpus_agree"] += 1
                    acc.counters["corpus_" + b.status] += 1
    acc.nontrivial.add(h([name, version]))


def witness_known():
    """v.store(1); v.store(2); v.load(): the optimiser deletes both stores, leaving a value on the stack."""
    return {"mode": "app", "subs": [], "vars": [{"id": "v", "t": "u", "kind": "sv", "slot": None}],
            "main": [["store", "v", ["int", 1]], ["store", "v", ["int", 2]], ["log", ["itob", ["load", "v"]]]], "final": ["int", 1]}


def run_shard(shard):
    from ..common import Acc, rng_for
    acc = Acc()
    probe = OptProbe()
    if "replay" in shard:
        c = shard["replay"]
        if "corpus" in c:
            import pyteal as pt
            from .. import corpus
            ent = next(e for e in corpus.entries(pt) if c["corpus"].startswith(e[0]))
            check_corpus(acc, probe, pt, ent, c["versions"][0], rng_for(shard.get("seed", 0), "c03-replay"))
            return acc.result()
        check_recipe(acc, probe, c["recipe"], c["versions"], [c["ctx"]] if "ctx" in c else [recipes.gen_ctx_desc(rng_for(0, "r"), "app")], c.get("origin", "replay"),
                     only=c.get("setting") if c.get("setting") != [False, False] else None)
        return acc.result()
    rng = rng_for(shard["seed"], "c03", shard["shard"])
    reuse_pool = {}
    for it in range(shard["n"]):
        vgen = rng.choice([4, 5, 6, 7, 8, 8, 9, 9, 10, 10])
        r = rng.random()
        try:
            if r < .45:
                recipe = opt_family(rng, vgen)
                origin = "opt_family"
            elif r < .8:
                recipe = recipes.Gen(rng, version=vgen, mode="app", min_subs=rng.choice([0, 1]), call_bias=.05).program()
                origin = "random"
            else:
                from . import c02
                recipe = c02.mutual_family(rng)
                origin = "mutual_family"
        except RecursionError:
            continue
        lo = max(recipes.min_version(recipe), 5 if origin == "mutual_family" else 2)
        v1 = max(vgen, lo)
        versions = sorted({v1, rng.choice(list(range(lo, 11)))}) if rng.random() < .5 else [v1]
        ctxs = [recipes.gen_ctx_desc(rng, "app") for _ in range(3)]
        check_recipe(acc, probe, recipe, versions, ctxs, origin, reuse_pool=reuse_pool)
        acc.counters["recipes_" + origin] += 1
    # ---- the repository's example programs (sharded)
    import pyteal as pt
    from .. import corpus
    k = 0
    for ent in corpus.entries(pt):
        for v in sorted({ent[2], max(ent[2], 6), 8, 9, 10}):
            k += 1
            if k % shard["nshards"] == shard["shard"]:
                check_corpus(acc, probe, pt, ent, v, rng)
    acc.counters["optimizer_probe_calls"] = probe.calls
    if shard["shard"] == 0:
        check_recipe(acc, probe, witness_known(), [9], [recipes.gen_ctx_desc(rng, "app")], "known_witness")
    return acc.result()


def classify(v):
    case = v.get("case") or {}
    if v.get("kind") == "option_changes_behaviour" and case.get("mechanism") == KNOWN:
        return KNOWN
    return None


MANIFEST_ENTRY = {
    "technique": "runtime differential between option settings: the same program compiled under every scratch_slots/frame_pointers/version choice, executed on the reference AVM, outcomes and caller-visible stacks compared; probe on the optimiser's deletion routine",
    "text": ("Generated programs (general recipes, call graphs, and a family built from the shapes the slot optimiser and allocator look at) "
             "are compiled by the real compiler under every option setting and at several versions; every non-baseline compilation is "
             "executed on the same contexts as the unoptimised scratch-convention baseline, and verdict, return value, ordered effects, "
             "user-numbered slots and (within one calling convention) the stack after every retsub and at exit must be equal. A probe on "
             "the optimiser's deletion routine counts deleted accesses and attributes the one known defect by mechanism plus "
             "counterfactual re-compilation. Held = held on the executions listed."),
    "note": "Trusted: vlib/avm.py. Opcode cost is allowed to change and is not modelled.",
}
