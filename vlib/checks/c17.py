"""C17 - reading a routine-local variable before writing it is rejected.

Monitor: for programs with stores and loads of routine-local scratch variables placed over every small control skeleton (and for
larger random programs from which an initialising store was deleted), an independent definite-assignment analysis of the recipe
tree decides whether some syntactic path reaches a load without a store; if so the real compiler must refuse the program with
an error whose cause is the 'load occurs before store' error of such a variable.  Run-time echo: every program that does compile
is executed by the reference evaluator and on the reference AVM; a read of a never-written local there is a violation too.
Only the stated direction is judged: programs the oracle finds clean but PyTeal rejects are counted (over-rejection), not alarmed.
"""
import copy
import itertools

from .. import recipes

RECURSION_LIMIT = 6000

SPEC = {
    "level": "exploration",
    "rule": ("(1) exhaustive: every control skeleton up to N nodes (quick 4, thorough 5) over {Seq, If, If/Else, Cond, While, For, Break, "
             "Continue, Return} with every leaf drawn from {store v, load v, nop} and conditions drawn from {context, load v} for one "
             "variable (two variables sampled), in the main routine and inside a subroutine, versions 2/6/9 rotating, scratch-slot "
             "optimisation on and off; (2) random recipes with one initialising store deleted or moved into a branch/loop; (3) exempt "
             "shapes (variable shared with a subroutine, passed by reference, DynamicScratchVar target, reserved ids).  An evaluation is "
             "one compilation judged against the oracle; non-trivial = the oracle found a path to an unassigned load (must-reject cases) "
             "or the program contains both a store and a load of the variable inside different control constructs."),
    "assumptions": ["vlib/defassign.py definite-assignment analysis (source-level control-flow paths)", "vlib/refeval.py for the run-time echo"],
    "min_evaluations": {"quick": 8000, "thorough": 80000},
    "must_reach": ["must_reject_rejected", "clean_accepted", "in_sub", "in_main", "runtime_echo_runs", "mutated_random", "diamonds", "nested_loops", "shared_subroutine_rejected", "shared_subroutine_accepted", "many_paths_rejected", "after_router_sequences", "same_name_rejected", "terminal_arms"],
    "shard_timeout": {"quick": 2400, "thorough": 14400},
}


def plan(tier, seed):
    n = 16 if tier == "quick" else 64
    return [{"seed": seed, "shard": i, "nshards": n, "tier": tier, "skel_nodes": 4 if tier == "quick" else 5,
             "random": 200 if tier == "quick" else 1500} for i in range(n)]


# ------------------------------------------------------------------------------------------------ placement enumeration
def count_slots(sk):
    """(#leaf positions, #condition positions) of a skeleton."""
    k = sk[0]
    if k == "leaf":
        return 1, 0
    if k in ("ret", "break", "continue"):
        return 0, 0
    if k in ("if", "cond1", "while", "for"):
        a, b = count_slots(sk[1])
        return a, b + 1
    if k in ("ifelse", "cond2"):
        a, b = count_slots(sk[1])
        c, d = count_slots(sk[2])
        return a + c, b + d + 1
    if k == "seq2":
        a, b = count_slots(sk[1])
        c, d = count_slots(sk[2])
        return a + c, b + d
    raise ValueError(k)


def place(sk, leaves, conds, mode):
    """Instantiate a skeleton with explicit leaf statements and condition expressions (consumed left to right)."""
    li, ci = iter(leaves), iter(conds)
    ctr = [0]

    def ctxc():
        return ["bin", "%", ["btoi", ["txna", "ApplicationArgs", 0]] if mode == "app" else ["btoi", ["arg", 0]], ["int", 2]]

    def go(s):
        k = s[0]
        if k == "leaf":
            return next(li)
        if k == "ret":
            return ["return", ["int", 1]]
        if k in ("break", "continue"):
            return [k]
        if k == "if":
            c = next(ci)
            return ["if", c, go(s[1]), None]
        if k == "ifelse":
            c = next(ci)
            return ["if", c, go(s[1]), go(s[2])]
        if k == "cond1":
            c = next(ci)
            return ["cond", [[c, go(s[1])]]]
        if k == "cond2":
            c = next(ci)
            return ["cond", [[c, go(s[1])], [["int", 1], go(s[2])]]]
        if k == "seq2":
            a = go(s[1])
            return ["seq", [a, go(s[2])]]
        if k == "while":
            c = next(ci)
            return ["while", c, go(s[1])]
        if k == "for":
            c = next(ci)
            cid = "k%d" % ctr[0]
            ctr[0] += 1
            return ["for", ["store", cid, ["int", 0]], ["bin", "&&", ["bin", "<", ["load", cid], ["int", 2]], c],
                    ["store", cid, ["bin", "+", ["load", cid], ["int", 1]]], go(s[1])]
        raise ValueError(k)
    body = go(sk)
    return body, ctr[0]


LEAF = {"S0": ["store", "v0", ["int", 7]], "L0": ["pop", ["load", "v0"]], "N": ["nop"], "S1": ["store", "v1", ["int", 9]],
        "L1": ["pop", ["bin", "+", ["load", "v1"], ["int", 1]]], "X": ["store", "v1", ["load", "v0"]]}


def cond_expr(kind, mode):
    src = ["btoi", ["txna", "ApplicationArgs", 0]] if mode == "app" else ["btoi", ["arg", 0]]
    if kind == "C":
        return ["bin", "%", src, ["int", 2]]
    if kind == "L0":
        return ["bin", "<", ["load", "v0"], ["int", 100]]
    return ["bin", "<", ["load", "v1"], ["int", 100]]


def make_recipe(body, nctr, mode, where, two):
    vars_ = [{"id": "v0", "t": "u", "kind": "sv", "slot": None}] + ([{"id": "v1", "t": "u", "kind": "sv", "slot": None}] if two else [])
    vars_ += [{"id": "k%d" % i, "t": "u", "kind": "sv", "slot": None} for i in range(nctr)]
    tail = ["pop", ["int", 5]]
    if where == "main":
        return {"mode": mode, "vars": vars_, "subs": [], "main": [body, tail], "final": ["int", 1]}
    sub = {"name": "s", "params": [{"k": "u"}], "ret": "u", "rec": False, "locals": vars_, "body": [body, tail], "retexpr": ["param", 0]}
    return {"mode": mode, "vars": [], "subs": [sub], "main": [["pop", ["call", 0, [["int", 3]]]]], "final": ["int", 1]}


# ------------------------------------------------------------------------------------------------ judging
def judge(acc, recipe, version, mode, ss, origin, run_echo=True):
    import pyteal as pt
    from .. import build, defassign, rcase
    from ..common import PT_ERRORS, h, reset_globals
    flagged = defassign.may_read_unassigned(recipe)
    acc.evaluations += 1
    acc.counters["in_sub" if recipe["subs"] and any(n[0] in ("load", "store") for n in recipes._nodes_of(recipe["subs"][0]["body"])) else "in_main"] += 1
    reset_globals()
    b = build.Builder(recipe)
    case = {"recipe": recipe, "version": version, "mode": mode, "scratch_slots": ss, "origin": origin}
    try:
        prog = b.program()
        teal = pt.compileTeal(prog, pt.Mode.Application if mode == "app" else pt.Mode.Signature, version=version,
                              optimize=pt.OptimizeOptions(scratch_slots=ss, frame_pointers=([False, None][int(h(recipe), 16) % 2]) if version >= 8 else None))
        err = None
    except PT_ERRORS as e:
        teal, err = None, e
    except RecursionError:
        acc.counters["dropped_recursion"] += 1
        return
    except Exception as e:
        acc.counters["crashed:" + type(e).__name__] += 1  # C20's subject
        return
    if flagged:
        acc.nontrivial.add(h(recipe))
        if err is None:
            acc.violation("unassigned_load_accepted", dict(case, flagged=[list(x) for x in flagged[:4]]),
                          "a path reaches a load of %r before any store, but the program compiled" % (sorted(set(flagged))[:3],), teal=teal[-1500:])
            return
        cause = err.__cause__
        ok_cause = isinstance(cause, pt.TealCompileError) and "load occurs before store" in str(cause)
        if not ok_cause:
            # rejected, but for another reason (e.g. version): acceptable only if the reason is real; counted
            if "assigning slots" in str(err):
                acc.violation("error_without_offending_load", case, "rejected with %r but the cause %r does not identify a load" % (str(err)[:120], cause))
            else:
                acc.counters["must_reject_rejected_other_reason"] += 1
            return
        # the cause must carry the offending load: a ScratchLoad of a slot belonging to a flagged main-routine variable
        src = getattr(cause, "sourceExpr", None)
        slot = getattr(src, "slot", None)
        main_flagged = {vid for rt, vid in flagged if rt == "main"}
        if main_flagged and not any(rt != "main" for rt, _ in flagged):
            owners = {vid for vid, (kind, obj) in b.gvars.items() if kind == "sv" and obj.slot is slot}
            if not (owners & main_flagged):
                acc.violation("error_names_wrong_load", dict(case, flagged=[list(x) for x in flagged[:4]]),
                              "the error's source expression %r is not a load of a flagged variable %r" % (str(src)[:80], sorted(main_flagged)))
                return
            acc.counters["error_identifies_flagged_variable"] += 1
        acc.counters["must_reject_rejected"] += 1
        if origin != "mutated_random":
            acc.sample({"origin": origin, "version": version, "routine_body": str((recipe["subs"][0]["body"] if recipe["subs"] else recipe["main"])[0])[:300],
                        "oracle_flags": [list(x) for x in flagged[:3]], "compiler": "rejected: " + str(cause)[:80]}, cap=3)
        return
    # oracle: clean
    if err is not None:
        if "assigning slots" in str(err):
            acc.counters["over_rejected"] += 1
        else:
            acc.counters["clean_rejected_other_reason"] += 1
        return
    acc.counters["clean_accepted"] += 1
    if any(n[0] == "store" for n in recipes.all_nodes(recipe)) and any(n[0] == "load" for n in recipes.all_nodes(recipe)):
        acc.nontrivial.add(h(recipe))
    if run_echo:
        # run-time echo: in a program that compiled, no local is read before its first write
        prog2 = rcase.G.parse_any(teal)
        for j in range(2):
            cd = {"mode": mode, "args": [(j).to_bytes(8, "big").hex()] * 4, "txn": {"ApplicationID": 77, "Sender": "53" * 32}, "group": 1, "gstate": {}}
            ref, dropped = rcase.run_ref(recipe, cd, max_steps=3000)
            if ref is None:
                continue
            acc.counters["runtime_echo_runs"] += 1
            exempt = defassign.Analysis(recipe).exempt
            bad = [v for v in ref.uninit if v not in exempt]
            if bad:
                acc.violation("runtime_read_before_write", dict(case, ctx=cd), "reference execution read %r before any write in a program that compiled" % (bad[:3],))
                return


def many_paths_probe(pt, acc, rng):
    """A variable stored on one arm only, followed by many further independent conditional stores (2^n combinations of stored
    variables reach the read), then the read: however large the path space, the load is rejected."""
    from ..common import PT_ERRORS, reset_globals
    reset_globals()
    I = pt.Int
    n = rng.choice([13, 14, 15, 16])
    pos = rng.choice([0, 0, n // 2])
    vs = [pt.ScratchVar(pt.TealType.uint64) for _ in range(n + 1)]
    c = lambda i: pt.Btoi(pt.Txn.application_args[0]) & I(1 << (i % 60))  # noqa: E731
    body = [pt.If(c(i)).Then(vs[i].store(I(i + 1))) for i in range(1, n + 1)]
    body.insert(pos, pt.If(c(0)).Then(vs[0].store(I(1))))
    body.append(pt.Pop(vs[0].load()))
    acc.evaluations += 1
    case = {"probe": "many_paths", "n": n, "pos": pos}
    try:
        pt.compileTeal(pt.Seq(*body, I(1)), pt.Mode.Application, version=rng.choice([6, 8]), optimize=pt.OptimizeOptions(scratch_slots=False))
    except PT_ERRORS as e:
        cause = e.__cause__
        if isinstance(cause, pt.TealCompileError) and "load occurs before store" in str(cause):
            acc.counters["many_paths_rejected"] += 1
        else:
            acc.violation("error_without_offending_load", case, "rejected with %r, cause %r" % (str(e)[:120], cause))
        return
    except RecursionError:
        acc.counters["dropped_recursion"] += 1
        return
    acc.violation("unassigned_load_accepted", case, "a variable stored on one arm only is read after %d further independent conditional stores, and the program compiled" % n)


def shared_subroutine_probe(pt, acc, rng):
    """Whether a variable is local to a routine depends on the program being compiled: one subroutine object is compiled first in a
    program where its read is legitimate (main stores the variable, so it is shared; or the variable lives in the frame) and then in
    programs where the variable is local to the subroutine and read before any store - each of those must be rejected with the
    load-before-store error, whatever was compiled before."""
    from ..common import PT_ERRORS, reset_globals
    reset_globals()
    I = pt.Int
    variant = rng.choice(["shared_with_main", "shared_with_main", "frame_then_scratch", "reject_accept_reject", "after_router", "after_router", "same_name", "same_name"])
    if variant == "same_name":
        # routines made by one factory share their name: the one that reads before writing is reported whichever namesake comes first
        def make(bad, k):
            def unit(x):
                w = pt.ScratchVar(pt.TealType.uint64)
                return (w.load() + x) if bad else pt.Seq(w.store(x), w.load() + I(k))
            unit.__name__ = "unit"
            return pt.Subroutine(pt.TealType.uint64, name=rng.choice([None, "unit", "unit"]))(unit)
        nsub = rng.choice([2, 3])
        badpos = rng.randrange(nsub)
        subs = [make(i == badpos, i) for i in range(nsub)]
        order = list(range(nsub))
        rng.shuffle(order)
        e = I(1)
        for i in order:
            e = e + subs[i](I(2))
        acc.evaluations += 1
        case = {"probe": "shared_subroutine", "variant": variant, "bad_position": badpos, "call_order": order}
        try:
            pt.compileTeal(e, pt.Mode.Application, version=rng.choice([6, 8]), optimize=pt.OptimizeOptions(scratch_slots=False))
        except PT_ERRORS as e2:
            cause = e2.__cause__
            if isinstance(cause, pt.TealCompileError) and "load occurs before store" in str(cause):
                acc.counters["shared_subroutine_rejected"] += 1
                acc.counters["same_name_rejected"] += 1
            else:
                acc.violation("error_without_offending_load", case, "rejected with %r, cause %r" % (str(e2)[:120], cause))
            return
        acc.violation("unassigned_load_accepted", case, "one of %d same-named routines reads its own variable before any store, and the program compiled" % nsub)
        return
    if variant == "after_router":
        # a Router build rewinds the slot-id counter while the helper's declaration (and its slots) stays cached: variables created
        # afterwards get ids that the helper's slots already carry - they are still different variables
        @pt.Subroutine(pt.TealType.uint64)
        def helper(x):
            a, b, c2 = pt.ScratchVar(pt.TealType.uint64), pt.ScratchVar(pt.TealType.uint64), pt.ScratchVar(pt.TealType.uint64)
            return pt.Seq(a.store(x), b.store(x + I(1)), c2.store(I(3)), a.load() + b.load() + c2.load())

        def meth(x: pt.abi.Uint64, *, output: pt.abi.Uint64):
            return output.set(helper(x.get()))
        r = pt.Router("t", pt.BareCallActions(no_op=pt.OnCompleteAction.create_only(pt.Approve())), clear_state=pt.Approve())
        r.add_method_handler(pt.ABIReturnSubroutine(meth))
        try:
            r.compile_program(version=rng.choice([6, 8]))
        except PT_ERRORS:
            return
        fresh = [pt.ScratchVar(pt.TealType.uint64) for _ in range(48)]
        for i, w in enumerate(fresh):
            acc.evaluations += 1
            try:
                pt.compileTeal(pt.Seq(pt.Pop(helper(I(1))), w.load()), pt.Mode.Application, version=6, optimize=pt.OptimizeOptions(scratch_slots=False))
            except PT_ERRORS as e:
                cause = e.__cause__
                if isinstance(cause, pt.TealCompileError) and "load occurs before store" in str(cause):
                    acc.counters["shared_subroutine_rejected"] += 1
                    continue
                acc.violation("error_without_offending_load", {"probe": "shared_subroutine", "variant": variant, "k": i}, "rejected with %r, cause %r" % (str(e)[:120], cause))
                return
            acc.violation("unassigned_load_accepted", {"probe": "shared_subroutine", "variant": variant, "k": i, "slot_id": w.slot.id},
                          "variable #%d created after a Router build (slot id %d) is read before any store next to a call of a helper the router had compiled, and the program compiled" % (i, w.slot.id))
            return
        acc.counters["after_router_sequences"] += 1
        return
    guard = rng.random() < .5
    v = pt.ScratchVar(pt.TealType.uint64)

    def mk_reader():
        def reader(n):
            rd = v.load() + n
            return pt.If(n > I(0)).Then(rd).Else(I(0)) if guard else rd
        reader.__name__ = "reader"
        return pt.Subroutine(pt.TealType.uint64)(reader)
    reader = mk_reader()
    good = lambda: pt.Seq(v.store(I(5)), reader(I(2)))         # noqa: E731  main stores v: shared, assumed initialised
    bad = lambda: pt.Seq(pt.Pop(I(1)), reader(I(2)))           # noqa: E731  v is the subroutine's own, read before any store

    @pt.ABIReturnSubroutine
    def early(*, output: pt.abi.Uint64):
        return pt.Seq(pt.Pop(output.get()), output.set(3))
    x = pt.abi.Uint64()
    abiprog = pt.Seq(early().store_into(x), x.get())
    if variant == "frame_then_scratch":
        steps = [("accept", abiprog, 8, None), ("reject", abiprog, rng.choice([6, 7]), None), ("reject", abiprog, 8, False), ("accept", abiprog, 10, None)]
    elif variant == "reject_accept_reject":
        steps = [("reject", bad(), 6, None), ("accept", good(), 6, None), ("reject", bad(), rng.choice([6, 8]), None)]
    else:
        steps = [("accept", good(), rng.choice([5, 6, 8]), None), ("reject", bad(), rng.choice([5, 6, 8, 10]), None), ("accept", good(), 6, None), ("reject", bad(), 6, None)]
    case = {"probe": "shared_subroutine", "variant": variant, "guard": guard}
    for i, (want, prog, version, fp) in enumerate(steps):
        acc.evaluations += 1
        opts = pt.OptimizeOptions(scratch_slots=False, frame_pointers=fp)
        try:
            pt.compileTeal(prog, pt.Mode.Application, version=version, optimize=opts)
            err = None
        except PT_ERRORS as e:
            err = e
        except Exception as e:
            acc.counters["crashed:" + type(e).__name__] += 1
            return
        if want == "reject":
            if err is None:
                acc.violation("unassigned_load_accepted", dict(case, step=i), "step %d of %r: the subroutine's own variable is read before any store (version %d, frame_pointers=%s), but the program compiled after the same subroutine object had been compiled in a program where the read was legitimate"
                              % (i, [w for w, _, _, _ in steps], version, fp))
                return
            cause = err.__cause__
            if not (isinstance(cause, pt.TealCompileError) and "load occurs before store" in str(cause)):
                acc.violation("error_without_offending_load", dict(case, step=i), "rejected with %r, cause %r" % (str(err)[:120], cause))
                return
            acc.counters["shared_subroutine_rejected"] += 1
        else:
            if err is not None:
                acc.counters["shared_subroutine_over_rejected"] += 1
            else:
                acc.counters["shared_subroutine_accepted"] += 1


def run_shard(shard):
    from ..common import Acc, rng_for
    acc = Acc()
    if "replay" in shard:
        c = shard["replay"]
        if c.get("probe") == "many_paths":
            import pyteal as pt
            import random
            for k in range(6):
                many_paths_probe(pt, acc, random.Random(k))
            return acc.result()
        if c.get("probe") == "shared_subroutine":
            import pyteal as pt
            import random
            for k in range(40):
                shared_subroutine_probe(pt, acc, random.Random(k))
            return acc.result()
        judge(acc, c["recipe"], c["version"], c["mode"], c.get("scratch_slots", False), c.get("origin", "replay"))
        return acc.result()
    rng = rng_for(shard["seed"], "c17", shard["shard"])
    S, N = shard["shard"], shard["nshards"]
    idx = 0
    enum_rng = rng_for(shard["seed"], "c17-enumeration")  # the same sampled placements in every shard, so idx % N partitions them
    for n in range(1, shard["skel_nodes"] + 1):
        for sk in recipes.skeletons(n):
            nl, nc = count_slots(sk)
            if nl == 0 and nc == 0:
                continue
            leafsets = list(itertools.product(["S0", "L0", "N"], repeat=nl))
            condsets = list(itertools.product(["C", "L0"], repeat=nc))
            combos = [(l, c) for l in leafsets for c in condsets if "L0" in l or "L0" in c]
            if len(combos) > 60:
                combos = enum_rng.sample(combos, 60)
            # two variables: exhaustive over {S0,L0,S1,L1,N} for up to 3 leaves (context conditions), sampled beyond
            two = [l for l in itertools.product(["S0", "L0", "S1", "L1", "N"], repeat=nl)
                   if any(x in ("S1", "L1") for x in l) and any(x.startswith("L") for x in l)]
            if nl > 3:
                two = enum_rng.sample(two, 40)
            combos += [(l, tuple("C" for _ in range(nc))) for l in two]
            for _ in range(4):
                combos.append((tuple(enum_rng.choice(["S0", "L0", "S1", "L1", "X", "N"]) for _ in range(nl)), tuple(enum_rng.choice(["C", "L0", "L1"]) for _ in range(nc))))
            for leaves, conds in combos:
                idx += 1
                if idx % N != S:
                    continue
                mode = "sig" if idx % 7 == 0 else "app"
                where = "sub" if (idx // N) % 3 == 0 else "main"
                version = [2, 6, 9, 4, 8, 10][(idx // N) % 6]
                if where == "sub":
                    version = max(version, 4)
                two = any(x in ("S1", "L1", "X") for x in leaves) or "L1" in conds
                body, nctr = place(sk, [LEAF[x] for x in leaves], [cond_expr(c, mode) for c in conds], mode)
                recipe = make_recipe(body, nctr, mode, where, two)
                judge(acc, recipe, version, mode, ss=bool((idx // N) % 2), origin="placement")
                acc.counters["placements"] += 1
    # ---- joins whose arms store different variables
    for j, (ctxkind, body) in enumerate(diamond_family()):
        if j % N != S:
            continue
        where = "sub" if (j // N) % 2 else "main"
        judge(acc, diamond_recipe(copy.deepcopy(body), where), [4, 6, 9][(j // N) % 3], "app", ss=bool((j // N) % 2), origin="diamond_" + ctxkind, run_echo=False)
        acc.counters["diamonds"] += 1
    import pyteal as pt
    for _ in range(12):
        shared_subroutine_probe(pt, acc, rng)
    for _ in range(2):
        many_paths_probe(pt, acc, rng)
    # ---- arms that store and leave the routine
    for j, (tag, body) in enumerate(terminal_arm_family()):
        if j % N != S:
            continue
        for where in ("main", "sub"):
            leave = tag.split("_")[0]
            if where == "sub" and leave == "return":
                body2 = copy.deepcopy(body)  # (a subroutine returning uint64: Return(Int(1)) is fine as it is)
            else:
                body2 = copy.deepcopy(body)
            judge(acc, nested_loop_recipe(body2, where), [4, 6, 8, 10][(j // 3) % 4], "app", ss=bool((j // 5) % 2), origin="terminal_arm_" + tag, run_echo=False)
            acc.counters["terminal_arms"] += 1
    # ---- nested loops with jumps
    fam = nested_loop_family()
    for j, (tag, body) in enumerate(fam):
        if j % N != S:
            continue
        where = "sub" if (j // 7) % 2 else "main"
        judge(acc, nested_loop_recipe(copy.deepcopy(body), where), [4, 6, 8, 10][(j // 5) % 4], "app", ss=bool((j // 11) % 2), origin="nested_loop_" + tag, run_echo=False)
        acc.counters["nested_loops"] += 1
    # ---- random recipes with an initialiser deleted / demoted
    for i in range(shard["random"]):
        vgen = rng.choice([2, 4, 5, 6, 8, 9, 10])
        mode = "sig" if rng.random() < .2 else "app"
        try:
            r = recipes.Gen(rng, version=vgen, mode=mode, min_subs=rng.choice([0, 0, 1]), allow_abi=False).program()
        except RecursionError:
            continue
        v = max(vgen, recipes.min_version(r))
        mutate(rng, r)
        judge(acc, r, v, mode, ss=rng.random() < .5, origin="mutated_random", run_echo=(i % 3 == 0))
        acc.counters["mutated_random"] += 1
    # ---- exempt shapes
    for r, v in exempt_shapes():
        judge(acc, r, v, "app", ss=False, origin="exempt")
        acc.counters["exempt_shapes"] += 1
    return acc.result()


def diamond_family():
    """Joins whose arms store different variables (same and different counts), then a load after the join: If/Else, Cond with 2-3
    arms, ElseIf chains; plain, inside a While body, inside a For body followed by Break, and inside a subroutine."""
    subsets = [[], ["a"], ["b"], ["a", "b"], ["c"], ["a", "c"]]
    C = lambda i: ["bin", "==", ["bin", "%", ["btoi", ["txna", "ApplicationArgs", 0]], ["int", 3]], ["int", i]]  # noqa: E731

    def arm(vs):
        return ["seq", [["store", v, ["int", 1]] for v in vs]] if vs else ["nop"]
    out = []
    for narms in (2, 3):
        for choice in itertools.product(range(len(subsets)), repeat=narms):
            arms = [subsets[i] for i in choice]
            if not any(arms):
                continue
            for kind in ("ifelse", "cond", "ifchain"):
                if kind == "ifelse" and narms != 2:
                    continue
                if kind == "ifelse":
                    join = ["if", C(0), arm(arms[0]), arm(arms[1])]
                elif kind == "cond":
                    join = ["cond", [[C(i), arm(a)] for i, a in enumerate(arms[:-1])] + [[["int", 1], arm(arms[-1])]]]
                else:
                    join = ["ifchain", [[C(i), arm(a)] for i, a in enumerate(arms[:-1])], arm(arms[-1])]
                for lv in ("a", "b"):
                    load = ["pop", ["load", lv]]
                    out.append(("plain", [join, load]))
                    if narms == 2:
                        out.append(("while", [["while", C(1), ["seq", [join, load, ["break"]]]]]))
                        out.append(("for", [["for", ["store", "k", ["int", 0]], ["bin", "<", ["load", "k"], ["int", 2]], ["store", "k", ["bin", "+", ["load", "k"], ["int", 1]]],
                                            ["seq", [join, ["if", C(2), ["break"], None], load]]]]))
    return out


def terminal_arm_family():
    """Arms of a conditional that store a variable and then leave the routine (Return / Approve / Reject / Err), with the load on the
    other arm, after the join, or in a later conditional: what a terminating arm stored is stored on no path that continues."""
    C = lambda i: ["bin", "==", ["bin", "%", ["btoi", ["txna", "ApplicationArgs", 0]], ["int", 4]], ["int", i]]  # noqa: E731
    S, L = ["store", "a", ["int", 1]], ["pop", ["load", "a"]]
    out = []
    for leave in (["return", ["int", 1]], ["approve"], ["reject"], ["err"]):
        arm = ["seq", [S, leave]]
        for form in ("if", "ifelse_first", "ifelse_second", "cond_first", "cond_middle", "ifchain"):
            if form == "if":
                cond = ["if", C(0), arm, None]
            elif form == "ifelse_first":
                cond = ["if", C(0), arm, ["nop"]]
            elif form == "ifelse_second":
                cond = ["if", C(0), ["nop"], arm]
            elif form == "cond_first":
                cond = ["cond", [[C(0), arm], [["int", 1], ["nop"]]]]
            elif form == "cond_middle":
                cond = ["cond", [[C(0), ["nop"]], [C(1), arm], [["int", 1], ["nop"]]]]
            else:
                cond = ["ifchain", [[C(0), arm], [C(1), ["nop"]]], ["nop"]]
            for where_load in ("after", "later_arm", "loop_after", "stored_on_other_arm_too"):
                if where_load == "after":
                    body = [cond, L]
                elif where_load == "later_arm":
                    body = [cond, ["if", C(2), L, None]]
                elif where_load == "loop_after":
                    body = [cond, ["while", C(3), ["seq", [L, ["break"]]]]]
                else:
                    # the continuing paths store the variable themselves: this one is clean
                    body = [cond, S, L]
                out.append(("%s_%s_%s" % (leave[0], form, where_load), body))
    return out


def nested_loop_family():
    """Loops inside loops, with Break/Continue on some path of the inner body and the variable's store / load in every position a
    loop has (before the loops, body before and after the jump, For step, loop condition, after the inner loop, after both)."""
    C = lambda i: ["bin", "==", ["bin", "%", ["btoi", ["txna", "ApplicationArgs", 0]], ["int", 5]], ["int", i]]  # noqa: E731
    S, L = ["store", "a", ["int", 1]], ["pop", ["load", "a"]]

    def loop(kind, ctr, body, step_extra=None, cond_extra=None):
        cond = ["bin", "<", ["load", ctr], ["int", 2]]
        if cond_extra is not None:
            cond = ["bin", "&&", cond, cond_extra]
        inc = ["store", ctr, ["bin", "+", ["load", ctr], ["int", 1]]]
        if kind == "for":
            return ["for", ["store", ctr, ["int", 0]], cond, ["seq", [inc, step_extra]] if step_extra else inc, body]
        return ["seq", [["store", ctr, ["int", 0]], ["while", cond, ["seq", [inc, body] + ([step_extra] if step_extra else [])]]]]
    out = []
    loadcond = ["bin", "<", ["load", "a"], ["int", 100]]
    for outer in ("for", "while"):
        for inner in ("for", "while"):
            for jump in ("continue", "break", None):
                for store_at in ("before_jump", "after_jump", "pre_loops", "outer_body", None):
                    for load_at in ("inner_step", "inner_cond", "after_inner", "after_outer", "inner_body_end", "outer_step"):
                        ib = []
                        if store_at == "before_jump":
                            ib.append(S)
                        if jump:
                            ib.append(["if", C(1), [jump], None])
                        if store_at == "after_jump":
                            ib.append(S)
                        if load_at == "inner_body_end":
                            ib.append(L)
                        if not ib:
                            ib.append(["nop"])
                        il = loop(inner, "k1", ["seq", ib], step_extra=L if load_at == "inner_step" else None,
                                  cond_extra=loadcond if load_at == "inner_cond" else None)
                        ob = ([S] if store_at == "outer_body" else []) + [il] + ([L] if load_at == "after_inner" else [])
                        ol = loop(outer, "k0", ["seq", ob], step_extra=L if load_at == "outer_step" else None)
                        body = ([S] if store_at == "pre_loops" else []) + [ol] + ([L] if load_at == "after_outer" else [])
                        out.append(("%s_%s_%s_%s_%s" % (outer, inner, jump, store_at, load_at), body))
    return out


def nested_loop_recipe(body, where):
    vars_ = [{"id": v, "t": "u", "kind": "sv", "slot": None} for v in ("a", "k0", "k1")]
    if where == "main":
        return {"mode": "app", "vars": vars_, "subs": [], "main": body + [["pop", ["int", 5]]], "final": ["int", 1]}
    sub = {"name": "s", "params": [{"k": "u"}], "ret": "u", "rec": False, "locals": vars_, "body": body, "retexpr": ["param", 0]}
    return {"mode": "app", "vars": [], "subs": [sub], "main": [["pop", ["call", 0, [["int", 3]]]]], "final": ["int", 1]}


def diamond_recipe(body, where):
    vars_ = [{"id": v, "t": "u", "kind": "sv", "slot": None} for v in ("a", "b", "c", "k")]
    if where == "main":
        return {"mode": "app", "vars": vars_, "subs": [], "main": body + [["pop", ["int", 5]]], "final": ["int", 1]}
    sub = {"name": "s", "params": [{"k": "u"}], "ret": "u", "rec": False, "locals": vars_, "body": body, "retexpr": ["param", 0]}
    return {"mode": "app", "vars": [], "subs": [sub], "main": [["pop", ["call", 0, [["int", 3]]]]], "final": ["int", 1]}


def mutate(rng, r):
    """Delete one initialising store, or move it into a conditional / loop body, in the main routine or in a subroutine."""
    targets = [("main", r["main"])] + [("s%d" % k, s["body"]) for k, s in enumerate(r["subs"])]
    rng.shuffle(targets)
    for name, body in targets:
        idxs = [i for i, s in enumerate(body) if s[0] == "store" and isinstance(s[2], list) and s[2][0] in ("int", "bytes") and s[1] != "output"]
        if not idxs:
            continue
        i = rng.choice(idxs)
        how = rng.random()
        s = body[i]
        c = ["bin", "%", ["btoi", ["txna", "ApplicationArgs", 0]] if r["mode"] == "app" else ["btoi", ["arg", 0]], ["int", 2]]
        if how < .4:
            del body[i]
        elif how < .6:
            body[i] = ["if", c, s, None]
        elif how < .75:
            body[i] = ["if", c, s, ["nop"]]
        elif how < .85:
            body[i] = ["if", c, s, s]  # still definitely assigned
        elif how < .95:
            body[i] = ["while", c, ["seq", [s, ["break"]]]]
        else:
            body.append(body.pop(i))  # initialiser moved to the end
        return


def exempt_shapes():
    """Variables the property exempts: shared with a subroutine (stored only there), passed by reference, pointed at dynamically."""
    out = []
    sub = {"name": "w", "params": [], "ret": "n", "rec": False, "locals": [], "body": [["store", "g", ["int", 4]]], "retexpr": None}
    out.append(({"mode": "app", "vars": [{"id": "g", "t": "u", "kind": "sv", "slot": None}], "subs": [sub],
                 "main": [["callstmt", 0, []], ["pop", ["load", "g"]]], "final": ["int", 1]}, 6))
    subr = {"name": "w", "params": [{"k": "ref", "t": "u"}], "ret": "n", "rec": False, "locals": [], "body": [["pstore", 0, ["int", 4]]], "retexpr": None}
    out.append(({"mode": "app", "vars": [{"id": "g", "t": "u", "kind": "sv", "slot": None}], "subs": [subr],
                 "main": [["callstmt", 0, [["ref", "g"]]], ["pop", ["int", 1]]], "final": ["int", 1]}, 6))
    out.append(({"mode": "app", "vars": [{"id": "g", "t": "u", "kind": "sv", "slot": 7}], "subs": [],
                 "main": [["store", "g", ["int", 1]], ["pop", ["load", "g"]]], "final": ["int", 1]}, 6))
    return out


MANIFEST_ENTRY = {
    "technique": "runtime monitor with an independent oracle: exhaustive store/load placements over control skeletons compiled by the real compiler and judged by a source-level definite-assignment analysis; run-time echo on the reference evaluator",
    "text": ("Every placement of stores and loads of a routine-local variable over every control skeleton up to a node bound (main routine "
             "and subroutine, three program versions, optimiser on/off), plus random programs with an initialising store deleted or "
             "demoted into a branch or loop, is compiled by the real compiler; whenever an independent definite-assignment analysis of "
             "the source tree finds a path to an unassigned load, compilation must fail with the slot-assignment error whose cause is a "
             "'load occurs before store' error on a load of such a variable. Programs that compile are executed and must never read a "
             "local before writing it. Exhaustive over the enumerated placements, exploration beyond; only the stated direction is judged."),
    "note": "Trusted: vlib/defassign.py. Over-rejections (PyTeal refuses a program the oracle finds clean, e.g. loads in dead code after Return) are counted in the evidence, not alarmed.",
}
