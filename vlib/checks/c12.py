"""C12 - assembleConstants changes how constants load, not their values.

Monitor: the same program is compiled with and without assembleConstants; both texts are decoded with the
independent TEAL grammar into (non-constant instruction stream, list of constant-load sites with their decoded
value); streams and sites must agree one by one, block indices must be in range, and both programs are executed
on the reference AVM (templates substituted identically at text level) and must behave identically.
"""
import base64
import re

from .. import avm
from .. import tealgrammar as G

ADDRS = ["WSJHNPJ6YCLX5K4GUMQ4ISPK3ABMS3AL3F6CSVQTCUI5F4I65PWEMCWT3M",
         "AAAAAAAAAAAAAAAAAAAAAAAAAAAAAAAAAAAAAAAAAAAAAAAAAAAAY5HFKQ"]

SPEC = {
    "level": "exploration",
    "rule": ("programs made of 1..40 constant uses (quick) / up to 700 (ladder shards) drawn from: ints around 0/1/127/128/255/256/2^32/"
             "2^64-1 with frequency ties, named enum values (OnComplete, TxnType) mixed with their numbers, byte strings in every "
             "spelling of equal values (utf8 str, raw bytes, base16, base32 padded/unpadded, base64), Addr, MethodSignature, "
             "Tmpl.Int/Bytes/Addr; >4 and >255 distinct repeated constants; versions 3..10. A program is non-trivial when at least "
             "one constant is repeated (so a block is emitted); distinct = distinct (constant list, version)."),
    "assumptions": ["vlib/tealgrammar.py literal decoders", "reference AVM semantics of intcblock/bytecblock/intc/bytec/pushint/pushbytes"],
    "min_evaluations": {"quick": 3000, "thorough": 30000},
    "must_reach": ["sites_agree", "exec_agree", "with_intcblock", "with_bytecblock", "over_255_constants", "with_template"],
    "shard_timeout": {"quick": 2400, "thorough": 14400},
}


def plan(tier, seed):
    n = 16 if tier == "quick" else 64
    return [{"seed": seed, "shard": i, "n": 260 if tier == "quick" else 900, "tier": tier,
             "ladder": ([300] if i % 8 == 0 else [258] if i % 8 == 1 else []) + ([700] if tier == "thorough" and i % 8 == 2 else [])}
            for i in range(n)]


def classify(v):
    if v.get("kind") == "site_mismatch" and v.get("cls") == "tmpl_addr":
        return "C12-tmpl-addr"
    return None


POOL_I = [0, 1, 2, 3, 4, 5, 6, 126, 127, 128, 129, 255, 256, 2**32, 2**64 - 1, 2**63]
POOL_B = [b"", b"a", b"ab", b"\x00", b"\xff" * 3, b'"', b"\\", b"a//b", b"x;y", b"hello world", b"TMPL_X", b"\n", b"0x61", b"\xc3\xa9"]
# the same TEXT as a literal of another kind (method signature, template name, enum name, address, base64/base32/hex spelling):
# the constant-block assembler must key constants by their value and kind, never by their spelling
POOL_B += [b"f()void", b"g(uint64)uint64", b"a b", b"TMPL_A", b"TMPL_C", b"TMPL_D", b"NoOp", b"pay", b"YQ==", b"MFRGG", b"61", b"0x6162", b"appl"]
ENUMS = ["NoOp", "OptIn", "CloseOut", "ClearState", "UpdateApplication", "DeleteApplication", "Payment", "KeyRegistration",
         "AssetConfig", "AssetTransfer", "AssetFreeze", "ApplicationCall", "Unknown"]


def gen_consts(rng, n):
    out = []
    allow_tmpl_addr = rng.random() < .12
    for _ in range(n):
        k = rng.random()
        if .92 <= k < .935 and not allow_tmpl_addr:
            k = rng.random() * .9
        if k < .28:
            out.append(["int", rng.choice(POOL_I)])
        elif k < .36:
            out.append(["enum", rng.choice(ENUMS)])
        elif k < .72:
            b = rng.choice(POOL_B)
            sp = rng.random()
            try:
                s = b.decode()
            except Exception:
                s = None
            if sp < .3 and s is not None:
                out.append(["str", s])
            elif sp < .5:
                out.append(["bytes", b.hex()])
            elif sp < .65:
                out.append(["b16", b.hex() if rng.random() < .5 else "0x" + b.hex().upper()])
            elif sp < .82:
                out.append(["b64", base64.b64encode(b).decode()])
            else:
                e = base64.b32encode(b).decode()
                out.append(["b32", e.rstrip("=") if rng.random() < .5 else e])
        elif k < .78:
            out.append(["addr", rng.choice(ADDRS)])
        elif k < .84:
            # (the assembler hashes the text between the quotes verbatim: backslashes, tabs and non-ASCII text are not escapes there)
            out.append(["method", rng.choice(["f()void", "g(uint64)uint64", "a b", "do\\tit(uint64)void", "a\\x41()void", "b\\\\c()void", "t\tab()void", "\u00e9()void", "n\\n()void"])])
        elif k < .88:
            out.append(["tmpl_int", rng.choice(["TMPL_A", "TMPL_B"])])
        elif k < .92:
            out.append(["tmpl_bytes", rng.choice(["TMPL_A", "TMPL_C"])])
        elif k < .935:
            out.append(["tmpl_addr", rng.choice(["TMPL_A", "TMPL_D"])])
        else:
            out.append(["bytes", bytes([rng.randrange(256) for _ in range(rng.randrange(1, 4))]).hex()])
    return out


def gen_ladder(rng, n):
    """> 255 distinct repeated constants of both kinds."""
    out = []
    for i in range(n):
        out.append(["int", 1000 + i])
        out.append(["bytes", ("k%d" % i).encode().hex()])
    out = out + out
    if rng.random() < .5:
        out += [["int", 1000], ["int", 1000], ["bytes", b"k0".hex()]]
    rng.shuffle(out)
    return out


def mk_const(pt, c):
    k, v = c
    if k == "int":
        return "i", pt.Int(v)
    if k == "enum":
        e = getattr(pt.OnComplete, v, None)
        if e is None:
            e = getattr(pt.TxnType, v)
        return "i", e
    if k == "str":
        return "b", pt.Bytes(v)
    if k == "bytes":
        return "b", pt.Bytes(bytes.fromhex(v))
    if k == "b16":
        return "b", pt.Bytes("base16", v)
    if k == "b64":
        return "b", pt.Bytes("base64", v)
    if k == "b32":
        return "b", pt.Bytes("base32", v)
    if k == "addr":
        return "b", pt.Addr(v)
    if k == "method":
        return "b", pt.MethodSignature(v)
    if k == "tmpl_int":
        return "i", pt.Tmpl.Int(v)
    if k == "tmpl_bytes":
        return "b", pt.Tmpl.Bytes(v)
    if k == "tmpl_addr":
        return "b", pt.Tmpl.Addr(v)
    raise ValueError(k)


def build(pt, consts, version):
    v = pt.ScratchVar(pt.TealType.bytes)
    body = [v.store(pt.Bytes(""))]
    for c in consts:
        ty, e = mk_const(pt, c)
        piece = e if ty == "b" else pt.Itob(e)
        body.append(v.store(pt.Sha256(pt.Concat(v.load(), piece))))
    if version >= 5:
        body.append(pt.Log(v.load()))
    else:
        body.append(pt.App.globalPut(pt.Bytes("out"), v.load()))
    return pt.Seq(*body, pt.Int(1))


def sites(teal):
    """-> (constant sites, other instruction stream, problems)"""
    P = G.parse_any(teal)
    intc, bytec = [], []
    out, other, problems = [], [], []
    for I in P.instrs:
        op, a = I.op, I.args

        def tmpl_or(fn, kind):
            if a and a[0].startswith("TMPL_"):
                return ("tmpl", kind, a[0])
            return fn()
        if op == "intcblock":
            intc = [("tmpl", "int", x) if x.startswith("TMPL_") else G.parse_int(x) for x in a]
        elif op == "bytecblock":
            rest = list(a)
            bytec = []
            while rest:
                if rest[0].startswith("TMPL_"):
                    bytec.append(("tmpl", "bytes", rest[0]))
                    rest = rest[1:]
                    continue
                b, n = G.parse_bytes_args(rest)
                bytec.append(b)
                rest = rest[n:]
        elif op in ("int", "pushint"):
            out.append(tmpl_or(lambda: G.parse_int(a[0]), "int"))
        elif op in ("byte", "pushbytes"):
            out.append(tmpl_or(lambda: G.parse_bytes_args(a)[0], "bytes"))
        elif op == "addr":
            out.append(tmpl_or(lambda: G.decode_address(a[0]), "addr"))
        elif op == "method":
            out.append(G.method_selector(a[0]))
        elif op == "intc" or op.startswith("intc_"):
            i = int(a[0]) if op == "intc" else int(op[5:])
            if op == "intc" and not 0 <= i <= 255:
                problems.append("intc index %d does not fit one byte" % i)
            if i >= len(intc):
                problems.append("intc index %d beyond block of %d" % (i, len(intc)))
                out.append(None)
            else:
                out.append(intc[i])
        elif op == "bytec" or op.startswith("bytec_"):
            i = int(a[0]) if op == "bytec" else int(op[6:])
            if op == "bytec" and not 0 <= i <= 255:
                problems.append("bytec index %d does not fit one byte" % i)
            if i >= len(bytec):
                problems.append("bytec index %d beyond block of %d" % (i, len(bytec)))
                out.append(None)
            else:
                out.append(bytec[i])
        else:
            other.append((op, tuple(a)))
    if len(intc) > 256:
        problems.append("intcblock has %d entries" % len(intc))
    if len(bytec) > 256:
        problems.append("bytecblock has %d entries" % len(bytec))
    return out, other, problems, (len(intc), len(bytec))


SUBST = {"TMPL_A": ("17", "0x0a0b", ADDRS[1]), "TMPL_B": ("255", "0x", ADDRS[1]), "TMPL_C": ("3", "0x010203", ADDRS[0]),
         "TMPL_D": ("4", "0x04", ADDRS[0])}


def substitute(teal):
    """Text-level template substitution the way a user does it: int sites get an int, byte sites a byte literal."""
    lines = []
    for line in teal.split("\n"):
        toks = G.tokenize(line)
        if toks and toks[0] in ("int", "pushint", "intcblock"):
            line = re.sub(r"(?<![\w\"])TMPL_[A-D]\b", lambda m: SUBST[m.group(0)][0], line)
        elif toks and toks[0] in ("byte", "pushbytes", "bytecblock"):
            line = re.sub(r"(?<![\w\"])TMPL_[A-D]\b", lambda m: SUBST[m.group(0)][1], line)
        elif toks and toks[0] == "addr":
            line = re.sub(r"(?<![\w\"])TMPL_[A-D]\b", lambda m: SUBST[m.group(0)][2], line)
        lines.append(line)
    return "\n".join(lines)


def check_case(pt, acc, case):
    from ..common import PT_ERRORS, h, reset_globals
    reset_globals()
    consts, version = case["consts"], case["version"]
    acc.evaluations += 1
    try:
        prog = build(pt, consts, version)
        a = pt.compileTeal(prog, pt.Mode.Application, version=version)
        b = pt.compileTeal(prog, pt.Mode.Application, version=version, assembleConstants=True)
    except PT_ERRORS as e:
        acc.violation("compile_rejected", case, "%s: %s" % (type(e).__name__, str(e)[:300]))
        return
    except Exception as e:
        acc.violation("compile_crash", case, "%s: %s" % (type(e).__name__, str(e)[:300]))
        return
    try:
        sa, oa, pa, _ = sites(a)
        sb, ob, pb, (ni, nb) = sites(b)
    except (G.ParseError, ValueError, IndexError) as e:
        acc.violation("undecodable", case, "constant site does not decode: %r" % (e,))
        return
    keys = [tuple(c) for c in consts]
    if len(set(keys)) < len(keys):
        acc.nontrivial.add(h(case))
    if ni:
        acc.counters["with_intcblock"] += 1
    if nb:
        acc.counters["with_bytecblock"] += 1
    if ni > 4 or nb > 4:
        acc.counters["block_over_4"] += 1
    if len(set(keys)) > 255:
        acc.counters["over_255_constants"] += 1
    has_tmpl = any(c[0].startswith("tmpl") for c in consts)
    has_tmpl_addr = any(c[0] == "tmpl_addr" for c in consts)
    if has_tmpl:
        acc.counters["with_template"] += 1
    for p in pb:
        acc.violation("block_index", case, p)
    if oa != ob:
        acc.violation("stream_mismatch", case, "non-constant instruction streams differ: %r vs %r"
                      % (next(((x, y) for x, y in zip(oa, ob) if x != y), None), (len(oa), len(ob))))
        return
    if len(sa) != len(sb):
        acc.violation("site_mismatch", case, "%d constant sites vs %d" % (len(sa), len(sb)), cls="count")
        return
    bad = [(i, x, y) for i, (x, y) in enumerate(zip(sa, sb)) if x != y]
    if bad:
        i, x, y = bad[0]
        only_tmpl_addr = all(isinstance(x, tuple) and x[:2] == ("tmpl", "addr") and isinstance(y, tuple) and y[0] == "tmpl"
                             and y[2] == x[2] for _, x, y in bad)
        acc.violation("site_mismatch", case, "site %d: pseudo-op form denotes %r, assembled form loads %r (%d sites differ)"
                      % (i, x, y, len(bad)), cls="tmpl_addr" if only_tmpl_addr else "value")
        if not only_tmpl_addr:
            return
    else:
        acc.counters["sites_agree"] += 1
    if has_tmpl_addr:
        acc.counters["exec_skipped_tmpl_addr"] += 1
        return
    ta, tb = (substitute(a), substitute(b)) if has_tmpl else (a, b)
    try:
        ra = avm.run(avm.parse_any(ta), avm.Ctx(), max_steps=400000)
        rb = avm.run(avm.parse_any(tb), avm.Ctx(), max_steps=400000)
    except (avm.Unsupported, avm.Timeout, G.ParseError) as e:
        acc.violation("exec_error", case, "%s: %s" % (type(e).__name__, e))
        return
    oa_ = (ra.status, ra.logs, [t for t in ra.trace if t[0] == "gput"])
    ob_ = (rb.status, rb.logs, [t for t in rb.trace if t[0] == "gput"])
    if oa_ != ob_ or ra.status != "approve":
        acc.violation("exec_mismatch", case, "plain: %r | assembled: %r (err %s / %s)" % (oa_, ob_, ra.error, rb.error))
        return
    acc.counters["exec_agree"] += 1
    acc.sample({"constants": consts[:12], "version": version, "intcblock": ni, "bytecblock": nb,
                "assembled_head": b.split("\n")[1:4]}, cap=3)


def known_probes(pt, acc):
    a2 = type(acc)()
    check_case(pt, a2, {"consts": [["tmpl_addr", "TMPL_A"], ["tmpl_addr", "TMPL_A"]], "version": 6})
    if any(classify(v) == "C12-tmpl-addr" for v in a2.violations):
        acc.known["C12-tmpl-addr"] += 1


def run_shard(shard):
    import pyteal as pt
    from ..common import Acc, rng_for
    acc = Acc()
    if "replay" in shard:
        check_case(pt, acc, shard["replay"])
        return acc.result()
    rng = rng_for(shard["seed"], "c12", shard["shard"])
    if shard["shard"] == 0:
        known_probes(pt, acc)
    for n in shard["ladder"]:
        check_case(pt, acc, {"consts": gen_ladder(rng, n), "version": rng.choice([3, 5, 6, 8, 10])})
    for _ in range(shard["n"]):
        check_case(pt, acc, {"consts": gen_consts(rng, rng.randrange(1, 41)), "version": rng.choice([3, 4, 5, 6, 7, 8, 9, 10])})
    return acc.result()


MANIFEST_ENTRY = {
    "technique": "runtime differential: plain vs assembleConstants output decoded site-by-site with an independent TEAL literal grammar, and both executed on the reference AVM",
    "text": ("For generated constant multisets (all literal spellings, enums, templates, ties, more than 4 and more than 255 distinct "
             "repeated constants, versions 3-10) the two compilations are decoded independently: the non-constant instruction streams "
             "must be equal, every constant site must denote the same value (or the same template identity and kind), every block "
             "index must be in range, and both programs must log the same digest when executed. Held = held on the programs listed."),
    "note": "Trusted: vlib/tealgrammar.py literal decoding; vlib/avm.py constant-block ops.",
}
