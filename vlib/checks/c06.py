"""C06 - ABI values assembled in PyTeal encode exactly per ARC-4.

Monitor: a program that assembles a value with set(...) from its parts and logs encode() is compiled by the
real compiler and executed on the reference AVM; the logged bytes are compared with algosdk's ARC-4 codec,
as are str(spec), is_dynamic() and byte_length_static().  Out-of-range Python ints must be rejected at
construction; out-of-range run-time integers must make the program fail.
"""
from .. import abigen, avm

SPEC = {
    "level": "exploration",
    "rule": ("type shapes: exhaustive enumeration of all shapes with <= N constructor nodes (N=3 quick over a rotating "
             "slice, N=4 thorough) plus random shapes to depth 4 biased to bool runs of 1/7/8/9/16/17 next to dynamic "
             "members; values boundary-biased; each leaf set through a randomly chosen accepted spelling (Python literal, "
             "Expr, copy, computed); versions 5..10; storage back-end main routine (scratch) / subroutine (frame "
             "pointers from v8) / subroutine with frame pointers off; plus uint range probes. A case is non-trivial "
             "when the type is composite (tuple/array) or a range probe; distinct = distinct (type, value, back-end, version)."),
    "assumptions": ["algosdk.abi is the ARC-4 reference codec", "reference AVM (vlib/avm.py) semantics, calibrated by setup gates"],
    "min_evaluations": {"quick": 3000, "thorough": 40000},
    "must_reach": ["encode_ok", "descriptor_ok", "backend_main", "backend_sub_frame", "backend_sub_scratch", "range_py_rejected", "range_literal_length_rejected", "range_rt_failed",
                   "meta_checked"],
    "shard_timeout": {"quick": 2400, "thorough": 14400},
}


def plan(tier, seed):
    n = 16 if tier == "quick" else 64
    per = 700 if tier == "quick" else 4000
    return [{"seed": seed, "shard": i, "nshards": n, "n": per, "tier": tier} for i in range(n)]


def meta_check(pt, acc, tstr, st, ts, case):
    acc.counters["meta_checked"] += 1
    if str(ts) != tstr and str(ts) != str(st):
        acc.violation("type_string", case, "str(spec)=%r, reference %r" % (str(ts), str(st)))
    try:
        if ts.is_dynamic() != st.is_dynamic():
            acc.violation("is_dynamic", case, "%s: is_dynamic()=%s reference %s" % (tstr, ts.is_dynamic(), st.is_dynamic()))
        if not st.is_dynamic() and ts.byte_length_static() != st.byte_len():
            acc.violation("byte_length_static", case, "%s: %d reference %d" % (tstr, ts.byte_length_static(), st.byte_len()))
    except Exception as e:
        acc.violation("meta_exception", case, "%s: %s %s" % (tstr, type(e).__name__, e))


def build_program(pt, ts, st, val, backend, sub_seed):
    import random
    rng = random.Random(sub_seed)

    def computed(v):
        @pt.ABIReturnSubroutine
        def mk(*, output: pt.abi.Uint64):
            return output.set(pt.Int(v))
        return mk()

    def first_value(r, out):
        # every fourth case: the instance is first given another value of its type (set() must fully overwrite, whatever the
        # instance held before: stale tails, offsets, bits)
        if sub_seed % 4 != 0:
            return []
        other = abigen.rand_val(random.Random(sub_seed + 1), st)
        try:
            return abigen.build_set(pt, ts, st, other, out, random.Random(sub_seed + 2), None)
        except Exception:
            return []

    if backend == "main":
        out = ts.new_instance()
        return pt.Seq(*first_value(rng, out), *abigen.build_set(pt, ts, st, val, out, rng, computed), pt.Log(out.encode()), pt.Int(1))

    @pt.Subroutine(pt.TealType.bytes)
    def mk():
        # deterministic on every evaluation of the body
        r2 = random.Random(sub_seed)
        out = ts.new_instance()
        return pt.Seq(*first_value(r2, out), *abigen.build_set(pt, ts, st, val, out, r2, computed), out.encode())
    return pt.Seq(pt.Log(mk()), pt.Int(1))


def check_case(pt, acc, case):
    from ..common import PT_ERRORS, h, reset_globals
    reset_globals()
    tstr, version, backend = case["type"], case["version"], case["backend"]
    st = abigen.sdk(tstr)
    ts = abigen.spec_of(pt, st, case.get("how", 0))
    val = case["value"]
    acc.evaluations += 1
    meta_check(pt, acc, tstr, st, ts, case)
    if case.get("how", 0) % 2 == 1 and ts != pt.abi.type_spec_from_algosdk(st):
        acc.violation("spec_equality", case, "directly built spec != type_spec_from_algosdk for %s" % tstr)
    exp = st.encode(_val_from_json(st, val))
    opts = None
    if backend == "sub_scratch":
        opts = pt.OptimizeOptions(frame_pointers=False, scratch_slots=case.get("opt", False))
    elif case.get("opt") is not None:
        opts = pt.OptimizeOptions(scratch_slots=case.get("opt"))
    try:
        prog = build_program(pt, ts, st, _val_from_json(st, val), "main" if backend == "main" else "sub", case["sub_seed"])
        teal = pt.compileTeal(prog, pt.Mode.Application, version=version, optimize=opts)
    except PT_ERRORS as e:
        if "Too many slots" in str(e):
            acc.counters["dropped_resource_limit_slots"] += 1
            return
        acc.violation("compile_rejected", case, "%s: %s" % (type(e).__name__, str(e)[:300]))
        return
    except Exception as e:
        acc.violation("compile_crash", case, "%s: %s" % (type(e).__name__, str(e)[:300]))
        return
    p = avm.parse_any(teal)
    uses_frame = any(I.op == "proto" for I in p.instrs)
    acc.counters["backend_" + ("main" if backend == "main" else ("sub_frame" if uses_frame else "sub_scratch"))] += 1
    try:
        r = avm.run(p, avm.Ctx())
    except (avm.Unsupported, avm.Timeout) as e:
        acc.counters["dropped_" + type(e).__name__] += 1
        return
    if len(exp) > 4000:
        acc.counters["dropped_resource_limit"] += 1
        return
    if tstr.count("(") + tstr.count("["):
        acc.nontrivial.add(h(case))
    if r.san:
        acc.violation("sanitizer", case, "AVM sanitizer: %r" % (r.san[:2],), teal=teal)
    if r.status != "approve" or r.logs != [exp]:
        acc.violation("encoding_mismatch", case, "type %s value %r v%d %s: status=%s err=%s logged=%s expected=%s"
                      % (tstr, val, version, backend, r.status, r.error, r.logs and r.logs[0].hex(), exp.hex()), teal=teal)
        return
    acc.counters["encode_ok"] += 1
    acc.sample({"type": tstr, "value": val, "version": version, "backend": backend, "encoded_hex": exp.hex()[:120]})


def _nodes(v):
    """number of ABI instances needed to assemble v (each copy spelling may add one more)"""
    if isinstance(v, list):
        return 1 + sum(_nodes(x) for x in v)
    return 1


def _val_to_json(v):
    if isinstance(v, (bytes, bytearray)):
        return {"hex": bytes(v).hex()}
    if isinstance(v, list):
        return [_val_to_json(x) for x in v]
    return v


def _val_from_json(st, v):
    if isinstance(v, dict) and "hex" in v:
        return bytes.fromhex(v["hex"])
    if isinstance(v, list):
        from algosdk import abi as sabi
        if isinstance(st, sabi.TupleType):
            return [_val_from_json(c, x) for c, x in zip(st.child_types, v)]
        if isinstance(st, (sabi.ArrayStaticType, sabi.ArrayDynamicType)):
            return [_val_from_json(st.child_type, x) for x in v]
    return v


def range_probe(pt, acc, rng):
    """Integers that do not fit: Python ints rejected at construction, run-time values make the program fail."""
    from ..common import PT_ERRORS, h, reset_globals
    reset_globals()
    bits = rng.choice([8, 16, 32, 64])
    tname = rng.choice(["byte", "uint8"]) if bits == 8 else "uint%d" % bits
    ts = abigen.spec_of(pt, abigen.sdk(tname))
    over = rng.choice([2**bits, 2**bits + 1, 2**64 - 1 if bits < 64 else 2**64, 2**bits + rng.randrange(1000)])
    fit = rng.choice([2**bits - 1, 0, 2**(bits - 1)])
    acc.evaluations += 1
    case = {"probe": "range", "type": tname, "over": str(over), "fit": str(fit)}
    acc.nontrivial.add(h(case))
    # python int
    try:
        ts.new_instance().set(over)
        acc.violation("range_py_accepted", case, "%s.set(%d) accepted" % (tname, over))
    except PT_ERRORS:
        acc.counters["range_py_rejected"] += 1
    except Exception as e:
        acc.violation("range_py_crash", case, "%s.set(%d) raised %s" % (tname, over, type(e).__name__))
    try:
        ts.new_instance().set(-1)
        acc.violation("range_py_accepted", case, "%s.set(-1) accepted" % tname)
    except PT_ERRORS:
        acc.counters["range_py_rejected"] += 1
    except Exception as e:
        acc.violation("range_py_crash", case, "%s.set(-1) raised %s" % (tname, type(e).__name__))
    # byte-string literals: their length prefix is a uint16, so a str/bytes literal of 65536 bytes or more does not fit and has to be
    # refused (by whatever exception), while one of 65535 bytes is accepted
    big = rng.choice([65536, 65537, 65536 + rng.randrange(5000), 131072, 65536 * 3 + 5])
    for mkname, val in rng.sample([("String", "a" * big), ("String", b"b" * big), ("DynamicBytes", b"c" * big), ("DynamicBytes", bytearray(big)),
                                   ("String", "\u00e9" * (big // 2))], 2):
        try:
            getattr(pt.abi, mkname)().set(val)
            acc.violation("range_py_accepted", dict(case, literal="%s of %d bytes" % (type(val).__name__, big)),
                          "abi.%s.set(<%s literal of %d bytes>) accepted although its length does not fit the uint16 prefix" % (mkname, type(val).__name__, big))
        except Exception:
            acc.counters["range_literal_length_rejected"] += 1
    try:
        pt.abi.String().set("z" * 65535)
        acc.counters["range_literal_length_fit_accepted"] += 1
    except Exception as e:
        acc.violation("range_rt_fit_wrong", dict(case, literal="str of 65535 bytes"), "abi.String.set(<65535-byte literal>) rejected although it fits: %s" % type(e).__name__)
    if bits == 64:
        return
    # run-time value
    version = rng.choice([5, 6, 7, 8, 9, 10])
    x = ts.new_instance()
    prog = pt.Seq(x.set(pt.Btoi(pt.Txn.application_args[0])), pt.Log(x.encode()), pt.Int(1))
    p = avm.parse_any(pt.compileTeal(prog, pt.Mode.Application, version=version))
    r = avm.run(p, avm.Ctx(group=[{"ApplicationArgs": [over.to_bytes(8, "big")]}]))
    if r.status != "fail":
        acc.violation("range_rt_not_failed", case, "%s.set(expr=%d) at v%d: status=%s logs=%r" % (tname, over, version, r.status, r.logs))
    else:
        acc.counters["range_rt_failed"] += 1
    # the same values given as expressions of other spellings: a bare Int literal, a computed constant, inside a tuple
    for spelling in ("int_literal", "computed", "in_tuple"):
        for val, must_fail in ((over, True), (fit, False)):
            reset_globals()
            x = ts.new_instance()
            try:
                e = pt.Int(val) if spelling != "computed" else (pt.Int(val - 1) + pt.Int(1) if val > 0 else pt.Int(0))
                if spelling == "in_tuple":
                    b0 = pt.abi.Bool()
                    tup = pt.abi.TupleTypeSpec(pt.abi.BoolTypeSpec(), ts).new_instance()
                    prog2 = pt.Seq(b0.set(True), x.set(e), tup.set(b0, x), pt.Log(tup.encode()), pt.Int(1))
                    want = b"\x80" + val.to_bytes(bits // 8, "big") if not must_fail else None
                else:
                    prog2 = pt.Seq(x.set(e), pt.Log(x.encode()), pt.Int(1))
                    want = val.to_bytes(bits // 8, "big") if not must_fail else None
                teal2 = pt.compileTeal(prog2, pt.Mode.Application, version=version)
            except PT_ERRORS:
                if must_fail:
                    acc.counters["range_expr_rejected_at_build"] += 1
                else:
                    acc.violation("range_rt_fit_wrong", dict(case, spelling=spelling), "%s.set(%s %d) rejected although it fits" % (tname, spelling, val))
                continue
            r2 = avm.run(avm.parse_any(teal2), avm.Ctx())
            if must_fail and r2.status != "fail":
                acc.violation("range_rt_not_failed", dict(case, spelling=spelling), "%s.set(%s %d) at v%d: status=%s logs=%r" % (tname, spelling, val, version, r2.status, r2.logs))
            elif not must_fail and (r2.status != "approve" or r2.logs != [want]):
                acc.violation("range_rt_fit_wrong", dict(case, spelling=spelling), "%s.set(%s %d) at v%d: status=%s logs=%r" % (tname, spelling, val, version, r2.status, r2.logs))
            else:
                acc.counters["range_expr_" + spelling + ("_failed" if must_fail else "_ok")] += 1
    r = avm.run(p, avm.Ctx(group=[{"ApplicationArgs": [fit.to_bytes(8, "big")]}]))
    if r.status != "approve" or r.logs != [fit.to_bytes(bits // 8, "big")]:
        acc.violation("range_rt_fit_wrong", case, "%s.set(expr=%d) at v%d: status=%s logs=%r" % (tname, fit, version, r.status, r.logs))
    # the value arrives inside another ABI integer (set(<ABI uint instance>)): a wider source holding a value that does not fit is
    # refused when the expression is built, or makes the program fail - it is never cut down to the low bytes
    for wbits in (16, 32, 64):
        if wbits <= bits:
            continue
        for val, must_fail in ((over if over < 2**wbits else 2**bits, True), (fit, False)):
            reset_globals()
            src = abigen.spec_of(pt, abigen.sdk("uint%d" % wbits)).new_instance()
            x = ts.new_instance()
            try:
                prog3 = pt.Seq(src.set(pt.Btoi(pt.Txn.application_args[0])), x.set(src), pt.Log(x.encode()), pt.Int(1))
                teal3 = pt.compileTeal(prog3, pt.Mode.Application, version=version)
            except PT_ERRORS:
                acc.counters["range_wider_source_rejected_at_build"] += 1
                continue
            r3 = avm.run(avm.parse_any(teal3), avm.Ctx(group=[{"ApplicationArgs": [val.to_bytes(8, "big")]}]))
            if must_fail and r3.status != "fail":
                acc.violation("range_rt_not_failed", dict(case, spelling="abi_uint%d_instance" % wbits), "%s.set(<uint%d holding %d>) at v%d: status=%s logs=%r" % (tname, wbits, val, version, r3.status, r3.logs))
            elif not must_fail and r3.status == "approve" and r3.logs != [val.to_bytes(bits // 8, "big")]:
                acc.violation("range_rt_fit_wrong", dict(case, spelling="abi_uint%d_instance" % wbits), "%s.set(<uint%d holding %d>) at v%d: logs=%r" % (tname, wbits, val, version, r3.logs))
            else:
                acc.counters["range_wider_source_" + ("failed" if must_fail else "ok")] += 1


def descriptor_probe(pt, acc, rng):
    """Every road to a TypeSpec must lead to the same ARC-4 type: from an algosdk type, from a type string, from a method signature,
    from the spec's own annotation, and back to algosdk.  Shapes include the lengths at which one type's layout coincides with
    another's (byte[32] / uint8[32] / address, byte[1] / byte, bool[8] / byte)."""
    SPECIAL = ["byte[32]", "uint8[32]", "bool[32]", "byte[31]", "byte[33]", "byte[32][]", "byte[32][2]", "(byte[32],uint64)", "address", "address[]",
               "byte[1]", "bool[8]", "byte[]", "uint8[]", "string", "(byte[32])", "byte[64]", "(string,byte[32],bool)", "uint64[32]", "address[32]"]
    ts_list = SPECIAL + [abigen.rand_type(rng, maxdepth=3) for _ in range(12)]
    for tstr in ts_list:
        st = abigen.sdk(tstr)
        case = {"probe": "descriptor", "type": tstr}
        acc.evaluations += 1
        try:
            roads = {"from_algosdk": pt.abi.type_spec_from_algosdk(st), "direct": abigen.direct_spec(pt, st)}
            args, ret = pt.abi.type_specs_from_signature("m(%s,uint8)%s" % (tstr, tstr))
            roads["from_signature_arg"], roads["from_signature_ret"] = args[0], ret
            try:
                roads["from_annotation"] = pt.abi.type_spec_from_annotation(roads["direct"].annotation_type())
            except TypeError:
                acc.counters["descriptor_no_annotation"] += 1  # tuples of more than five members have no annotation spelling
            for road, ts in roads.items():
                acc.counters["descriptor_roads"] += 1
                if str(ts) != str(st):
                    acc.violation("type_string", dict(case, road=road), "%s: str(spec)=%r via %s, reference %r" % (tstr, str(ts), road, str(st)))
                elif ts.is_dynamic() != st.is_dynamic() or (not st.is_dynamic() and ts.byte_length_static() != st.byte_len()):
                    acc.violation("byte_length_static", dict(case, road=road), "%s via %s: layout descriptor differs from the reference" % (tstr, road))
                if ts != roads["direct"]:
                    acc.counters["descriptor_spec_objects_unequal"] += 1  # same ARC-4 type, different spec object: not a violation of C06
                back = pt.abi.algosdk_from_type_spec(ts)
                if back != st:
                    acc.violation("type_string", dict(case, road=road + ">algosdk"), "%s: algosdk_from_type_spec gives %s" % (tstr, back))
            if ret is None or len(args) != 2 or str(args[1]) != "uint8":
                acc.violation("type_string", case, "type_specs_from_signature mis-parsed m(%s,uint8)%s" % (tstr, tstr))
            acc.counters["descriptor_ok"] += 1
        except Exception as e:
            acc.violation("meta_exception", case, "%s: %s %s" % (tstr, type(e).__name__, str(e)[:200]))


def gen_case(rng, shapes, i, tier):
    boundary = False
    if shapes and i < len(shapes):
        tstr = shapes[i]
    elif rng.random() < .2:
        tstr = abigen.boundary_shape(rng)
        boundary = True
    else:
        tstr = abigen.rand_type(rng, maxdepth=rng.choice([1, 2, 3, 3, 4]))
    st = abigen.sdk(tstr)
    for _ in range(20):
        val = abigen.rand_val(rng, st)
        if _nodes(val) <= (110 if boundary else 110):
            break
    else:
        tstr = "(uint64,bool,string)"
        st = abigen.sdk(tstr)
        val = abigen.rand_val(rng, st)
    backend = rng.choice(["main", "sub", "sub", "sub_scratch"])
    version = rng.choice([5, 6, 7, 8, 9, 10]) if backend == "main" else rng.choice([6, 7, 8, 9, 10])
    return {"type": tstr, "value": _val_to_json(val), "version": version, "backend": backend, "how": rng.randrange(2),
            "sub_seed": rng.randrange(10**9), "opt": rng.choice([None, None, True, False])}


def run_shard(shard):
    import pyteal as pt
    from ..common import Acc, rng_for
    acc = Acc()
    if "replay" in shard:
        c = shard["replay"]
        if c.get("probe") == "range":
            range_probe(pt, acc, rng_for(0, "replay"))
        elif c.get("probe") == "descriptor":
            descriptor_probe(pt, acc, rng_for(0, "replay"))
        else:
            check_case(pt, acc, c)
        return acc.result()
    rng = rng_for(shard["seed"], "c06", shard["shard"])
    maxn = 3 if shard["tier"] == "quick" else 4
    allshapes = abigen.small_shapes(maxn)
    # this shard's slice of the exhaustive enumeration (quick: rotating 1/4 slice selected by seed)
    mine = allshapes[shard["shard"]::shard["nshards"]]
    if shard["tier"] == "quick" and len(mine) > shard["n"] // 2:
        off = shard["seed"] % 4
        mine = mine[off::4]
    acc.counters["enumerated_shapes_total"] = len(allshapes) if shard["shard"] == 0 else 0
    acc.counters["enumerated_shapes_run"] = len(mine)
    total = max(shard["n"], len(mine))
    for i in range(total):
        if i % 12 == 0:
            range_probe(pt, acc, rng)
        if i % 100 == 0:
            descriptor_probe(pt, acc, rng)
        check_case(pt, acc, gen_case(rng, mine, i, shard["tier"]))
    return acc.result()


MANIFEST_ENTRY = {
    "technique": "runtime differential: compiled set()/encode() programs executed on a sanitizing reference AVM vs the algosdk ARC-4 codec",
    "text": ("Programs that assemble ABI values from their parts are compiled by the real compiler for enumerated and random "
             "type shapes, boundary-biased values, every accepted spelling, versions 5-10 and all three storage back-ends, "
             "executed, and the logged bytes compared with algosdk's encoding; type descriptors are compared too, and "
             "integer range enforcement is probed at construction and at run time. Held = held on the executions listed."),
    "note": "Trusted: algosdk.abi as ARC-4 reference; vlib/avm.py + prims.py (calibrated on the 92 golden round-trip programs).",
}
