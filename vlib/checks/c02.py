"""C02 - subroutine calls behave as function calls, including recursion.

Monitors: (1) outcome differential against the recipe evaluator with real call semantics (fresh locals per activation,
by-reference aliasing, Return anywhere); (2) the AVM's call-boundary sanitizer, independent of the evaluator: across every
callsub...retsub the caller's pending stack is unchanged and exactly the declared number of values was consumed/produced;
(3) by-reference recursion must be rejected at compile time.
"""
from .. import recipes

RECURSION_LIMIT = 6000

SPEC = {
    "level": "exploration",
    "rule": ("call-graph recipes: 1..4 routines, arities 0..5 (+ an arity ladder 0..12), parameter kinds value / ScratchVar by reference / "
             "ABI, return kinds none / uint64 / bytes / ABI output, 0..6 locals, calls in statement position and nested in operands, "
             "self and mutual recursion driven by an argument (depth <= 4) between routines of different arity and return kind, early "
             "Return; hand-built mutual-recursion families whose locals must survive the inner call; compiled at versions 4..10 x "
             "frame_pointers {default,on,off} (scratch-slot optimisation off: C03 judges it) and run on 3 contexts.  An evaluation is one "
             "execution compared with the reference evaluator under the call-boundary sanitizer; non-trivial = the execution performed a "
             "recursive call (self or mutual) or a call nested inside an operand; distinct = distinct recipe hashes."),
    "assumptions": ["vlib/refeval.py call semantics (fresh locals per activation, by-reference parameters alias the caller's cell)",
                    "vlib/avm.py callsub/retsub/proto/frame_dig/frame_bury semantics"],
    "min_evaluations": {"quick": 8000, "thorough": 100000},
    "must_reach": ["agree_approve", "recursion_self", "recursion_mutual", "recursion_mutual_diffkind", "conv_scratch", "conv_frame",
                   "byref_recursion_rejected", "calls_completed", "ladder_cases", "abi_recursion_probe_ok", "recipes_byref_family", "recipes_recursive_byref_local", "byref_forwarded", "declared_type_probe_ok", "optimised_call_programs", "optimised_agree"],
    "shard_timeout": {"quick": 2400, "thorough": 14400},
}

KNOWN_OPT = "C02-optimizer-unpaired-store"
NONLOCAL = "C02-nonlocal-exit-in-operand"


def plan(tier, seed):
    n = 16 if tier == "quick" else 64
    per = 260 if tier == "quick" else 2500
    return [{"seed": seed, "shard": i, "nshards": n, "n": per, "tier": tier} for i in range(n)]


def option_sets(rng, version, k=2):
    opts = [{"frame_pointers": None}]
    if version >= 8:
        opts += [{"frame_pointers": False}, {"frame_pointers": True}]
    else:
        opts += [{"frame_pointers": False}]
    rng.shuffle(opts)
    return opts[:k]


# ------------------------------------------------------------------------------------------------ hand-built families
def ladder(n, kind, rng):
    """One routine with n parameters of `kind`; result depends on the position of every argument; arguments carry effects."""
    params = [{"k": kind} for _ in range(n)]
    if kind == "u":
        ret = ["int", 7]
        for i in range(n):
            ret = ["bin", "+", ["bin", "*", ret, ["int", 3]], ["bin", "%", ["param", i], ["int", 1000]]]
        ret = ["bin", "%", ret, ["int", 2**40]]
        args = [["seqx", [["log", ["bytes", ("a%d" % i).encode().hex()]]], ["bin", "+", ["btoi", ["txna", "ApplicationArgs", i % 4]], ["int", i]]] for i in range(n)]
        sub = {"name": "lad", "params": params, "ret": "u", "locals": [], "body": [], "retexpr": ret, "rec": False}
        final = ["bin", "+", ["int", 1], ["bin", "%", ["bin", "+", ["call", 0, args], ["call", 0, [["int", i + 1] for i in range(n)]]], ["int", 2**32]]]
        main = [["log", ["itob", ["call", 0, args]]]]
    else:
        ret = ["bytes", "5b"]
        for i in range(n):
            ret = ["nary", "concat", [ret, ["param", i], ["bytes", "2c"]]]
        args = [["seqx", [["log", ["bytes", ("a%d" % i).encode().hex()]]], ["nary", "concat", [["txna", "ApplicationArgs", i % 4], ["bytes", ("%d" % i).encode().hex()]]]] for i in range(n)]
        sub = {"name": "lad", "params": params, "ret": "b", "locals": [], "body": [], "retexpr": ret, "rec": False}
        final = ["len", ["call", 0, args]]
        main = [["log", ["call", 0, args]]]
    return {"mode": "app", "vars": [], "subs": [sub], "main": main, "final": final}


def mutual_family(rng):
    """f and g call each other on n-1; each owns locals whose values must survive the inner call; arities, kinds and the call
    position (statement / assignment / operand with pending values) vary."""
    subs = []
    kinds = [rng.choice(["u", "b", "n"]) for _ in range(2)]
    nsub = rng.choice([1, 2, 2, 2, 3])
    kinds = [rng.choice(["u", "b", "n"]) for _ in range(nsub)]
    extra = [[rng.choice(["u", "b"]) for _ in range(rng.randrange(0, 4))] for _ in range(nsub)]
    nloc = [rng.randrange(0, 6) for _ in range(nsub)]
    for k in range(nsub):
        params = [{"k": "u"}] + [{"k": t} for t in extra[k]]
        locs, body = [], []
        for j in range(nloc[k]):
            t = rng.choice(["u", "u", "b"])
            vid = "s%d.L%d" % (k, j)
            locs.append({"id": vid, "t": t, "kind": "sv"})
            val = ["bin", "+", ["bin", "*", ["param", 0], ["int", 100]], ["int", 10 * k + j]]
            body.append(["store", vid, val if t == "u" else ["nary", "concat", [["bytes", ("L%d%d:" % (k, j)).encode().hex()], ["itob", val]]]])
        tmpu = "s%d.T" % k
        locs.append({"id": tmpu, "t": "u", "kind": "sv"})
        body.append(["store", tmpu, ["int", 0]])
        # base case
        base = {"u": ["return", ["bin", "+", ["param", 0], ["int", 40 + k]]], "b": ["return", ["bytes", ("base%d" % k).encode().hex()]], "n": ["return", None]}[kinds[k]]
        body.append(["if", ["bin", "==", ["param", 0], ["int", 0]], ["seq", [["log", ["bytes", ("B%d" % k).encode().hex()]], base]], None])
        # the recursive call(s)
        for _ in range(rng.choice([1, 1, 2])):
            callee = rng.randrange(nsub)
            cargs = [["bin", "-", ["param", 0], ["int", 1]]]
            for t in extra[callee]:
                mine = [i + 1 for i, tt in enumerate(extra[k]) if tt == t]
                if mine and rng.random() < .6:
                    cargs.append(["param", rng.choice(mine)])
                elif t == "u":
                    cargs.append(["bin", "+", ["param", 0], ["int", rng.randrange(1, 9)]])
                else:
                    cargs.append(["nary", "concat", [["bytes", "78"], ["itob", ["param", 0]]]])
            ck = kinds[callee]
            pos = rng.random()
            if ck == "n":
                body.append(["callstmt", callee, cargs])
            elif ck == "u":
                if pos < .4:
                    body.append(["store", tmpu, ["call", callee, cargs]])
                else:  # pending operands on both sides of the call
                    body.append(["store", tmpu, ["bin", "+", ["bin", "%", ["bin", "+", ["int", 1000 + k], ["call", callee, cargs]], ["int", 2**30]], ["param", 0]]])
            else:
                if pos < .4:
                    body.append(["store", tmpu, ["len", ["call", callee, cargs]]])
                else:
                    body.append(["store", tmpu, ["len", ["nary", "concat", [["bytes", "3c"], ["call", callee, cargs], ["itob", ["param", 0]]]]]])
            # observe every local and parameter after the call
            obs = [["itob", ["load", tmpu]], ["itob", ["param", 0]]]
            for i, t in enumerate(extra[k]):
                obs.append(["param", i + 1] if t == "b" else ["itob", ["param", i + 1]])
            for l in locs[:-1]:
                obs.append(["load", l["id"]] if l["t"] == "b" else ["itob", ["load", l["id"]]])
            body.append(["log", ["sha256", ["nary", "concat", [["bytes", ("o%d" % k).encode().hex()]] + obs]]])
        retexpr = None
        if kinds[k] == "u":
            retexpr = ["bin", "%", ["bin", "+", ["load", tmpu], ["bin", "*", ["param", 0], ["int", 7]]], ["int", 2**30]]
        elif kinds[k] == "b":
            retexpr = ["nary", "concat", [["bytes", ("r%d" % k).encode().hex()], ["itob", ["load", tmpu]]]]
        subs.append({"name": "s%d" % k, "params": params, "ret": kinds[k], "locals": locs, "body": body, "retexpr": retexpr, "rec": True})
    # main: call routine 0 with depth from the context
    depth = ["bin", "%", ["btoi", ["txna", "ApplicationArgs", 0]], ["int", 4]]
    a0 = [depth]
    for t in extra[0]:
        a0.append(["int", 5] if t == "u" else ["bytes", "6d"])
    if kinds[0] == "n":
        main = [["callstmt", 0, a0]]
        final = ["int", 1]
    elif kinds[0] == "u":
        main = [["log", ["itob", ["bin", "+", ["int", 9], ["call", 0, a0]]]]]
        final = ["int", 1]
    else:
        main = [["log", ["call", 0, a0]]]
        final = ["int", 1]
    return {"mode": "app", "vars": [], "subs": subs, "main": main, "final": final}


def byref_family(rng):
    """Chains of routines that receive ScratchVars by reference and forward them (their own parameter, or a local) to the next
    routine; every routine writes through the reference, the caller observes the writes."""
    n = rng.choice([2, 2, 3, 4])
    subs = []
    for k in range(n):
        nref = rng.choice([1, 1, 2])
        params = []
        order = rng.random()
        for j in range(nref):
            params.append({"k": "ref", "t": rng.choice(["u", "u", "b"])})
        nval = rng.choice([0, 1, 2])
        for j in range(nval):
            params.insert(rng.randrange(0, len(params) + 1), {"k": rng.choice(["u", "b"])})
        locs = [{"id": "s%d.L0" % k, "t": "u", "kind": "sv"}, {"id": "s%d.L1" % k, "t": "b", "kind": "sv"}]
        body = [["store", "s%d.L0" % k, ["int", 50 + k]], ["store", "s%d.L1" % k, ["bytes", ("l%d" % k).encode().hex()]]]
        subs.append({"name": "s%d" % k, "params": params, "ret": rng.choice(["n", "n", "u"]), "locals": locs, "body": body, "retexpr": None, "rec": False})
    for k in range(n):
        s = subs[k]
        body = s["body"]
        refs = [(i, p["t"]) for i, p in enumerate(s["params"]) if p["k"] == "ref"]
        vals = [(i, p["k"]) for i, p in enumerate(s["params"]) if p["k"] != "ref"]

        def write(i, t):
            if t == "u":
                return ["pstore", i, ["bin", "+", ["bin", "%", ["pload", i], ["int", 100000]], ["int", 10 ** k]]]
            return ["pstore", i, ["nary", "concat", [["pload", i], ["bytes", ("%d" % k).encode().hex()]]]]
        for i, t in refs:
            if rng.random() < .8:
                body.append(write(i, t))
        if k + 1 < n:
            for _ in range(rng.choice([1, 1, 2])):
                callee = rng.randrange(k + 1, n)
                cs = subs[callee]
                args = []
                for p in cs["params"]:
                    if p["k"] == "ref":
                        own = [["refparam", i] for i, t in refs if t == p["t"]]
                        loc = [["ref", "s%d.L%d" % (k, 0 if p["t"] == "u" else 1)]]
                        args.append(rng.choice(own * 3 + loc) if own else loc[0])
                    elif p["k"] == "u":
                        args.append(["int", rng.randrange(1, 9)])
                    else:
                        args.append(["bytes", "7a"])
                if cs["ret"] == "n":
                    body.append(["callstmt", callee, args])
                else:
                    body.append(["store", "s%d.L0" % k, ["bin", "+", ["load", "s%d.L0" % k], ["call", callee, args]]])
                for i, t in refs:
                    if rng.random() < .5:
                        body.append(write(i, t))
        obs = [["itob", ["load", "s%d.L0" % k]], ["load", "s%d.L1" % k]] + [["itob", ["pload", i]] if t == "u" else ["pload", i] for i, t in refs]
        body.append(["log", ["nary", "concat", [["bytes", ("s%d:" % k).encode().hex()]] + obs]])
        if s["ret"] == "u":
            s["retexpr"] = ["bin", "+", ["load", "s%d.L0" % k], ["int", k]]
    vars_ = [{"id": "gu", "t": "u", "kind": "sv", "slot": rng.choice([None, None, 10, 200])}, {"id": "gb", "t": "b", "kind": "sv", "slot": None},
             {"id": "gu2", "t": "u", "kind": "sv", "slot": None}]
    main = [["store", "gu", ["btoi", ["txna", "ApplicationArgs", 0]]], ["store", "gb", ["bytes", "67"]], ["store", "gu2", ["int", 7]]]
    a0 = []
    for p in subs[0]["params"]:
        if p["k"] == "ref":
            a0.append(["ref", rng.choice(["gu", "gu2"]) if p["t"] == "u" else "gb"])
        elif p["k"] == "u":
            a0.append(["int", 3])
        else:
            a0.append(["bytes", "61"])
    if subs[0]["ret"] == "n":
        main.append(["callstmt", 0, a0])
    else:
        main.append(["log", ["itob", ["call", 0, a0]]])
    main.append(["log", ["nary", "concat", [["itob", ["load", "gu"]], ["load", "gb"], ["itob", ["load", "gu2"]]]]])
    # a variable that is stored, read exactly once right away, and handed by reference to a routine that reads it: the only
    # direct load sits next to the store, so only the by-reference protection keeps the optimiser from cancelling the pair
    k = len(subs)
    subs.append({"name": "s%d" % k, "params": [{"k": "ref", "t": "u"}], "ret": "u", "rec": False, "locals": [],
                 "body": [["pstore", 0, ["bin", "*", ["pload", 0], ["int", 2]]]], "retexpr": ["pload", 0]})
    vars_.append({"id": "gu3", "t": "u", "kind": "sv", "slot": None})
    main.append(["store", "gu3", ["int", rng.choice([21, 5, 1000])]])
    main.append(["log", ["itob", ["bin", "+", ["load", "gu3"], ["call", k, [["ref", "gu3"]]]]]])
    return {"mode": "app", "vars": vars_, "subs": subs, "main": main, "final": ["int", 1]}


def recursive_byref_local(rng):
    """A recursive routine (no by-reference parameter of its own) keeps locals, hands some of them by reference to non-recursive
    helpers - before and/or after its recursive call - and observes all of them after the recursive call returned: each activation
    must see its own values.  Variants: one or two mutually recursive walkers, helpers that forward the reference, locals of both
    types."""
    def B(t):
        return ["bytes", t.encode().hex()]
    subs = []
    # helpers: 0 = bump (u ref), 1 = tagb (b ref), 2 = forwarder (u ref -> bump)
    subs.append({"name": "bump", "params": [{"k": "ref", "t": "u"}], "ret": "n", "rec": False, "locals": [], "retexpr": None,
                 "body": [["pstore", 0, ["bin", "+", ["pload", 0], ["int", 1]]]]})
    subs.append({"name": "tagb", "params": [{"k": "ref", "t": "b"}, {"k": "u"}], "ret": "u", "rec": False, "locals": [],
                 "body": [["pstore", 0, ["nary", "concat", [["pload", 0], ["itob", ["param", 1]]]]]], "retexpr": ["len", ["pload", 0]]})
    subs.append({"name": "fwd", "params": [{"k": "u"}, {"k": "ref", "t": "u"}], "ret": "n", "rec": False, "locals": [], "retexpr": None,
                 "body": [["callstmt", 0, [["refparam", 1]]], ["pstore", 1, ["bin", "+", ["pload", 1], ["param", 0]]]]})
    nwalk = rng.choice([1, 1, 2])
    for w in range(nwalk):
        me = 3 + w
        other = 3 + (w + 1) % nwalk
        lu, lb, lt = "w%d.U" % w, "w%d.B" % w, "w%d.T" % w
        locs = [{"id": lu, "t": "u", "kind": "sv"}, {"id": lb, "t": "b", "kind": "sv"}, {"id": lt, "t": "u", "kind": "sv"}]
        body = [["store", lu, ["bin", "+", ["bin", "*", ["param", 0], ["int", 100]], ["int", 7 + w]]],
                ["store", lb, ["nary", "concat", [B("b%d" % w), ["itob", ["param", 0]]]]],
                ["store", lt, ["int", 0]]]

        def helper_calls():
            out = []
            for _ in range(rng.choice([1, 1, 2])):
                h = rng.choice([0, 0, 1, 2])
                if h == 0:
                    out.append(["callstmt", 0, [["ref", lu]]])
                elif h == 1:
                    out.append(["store", lt, ["bin", "+", ["load", lt], ["call", 1, [["ref", lb], ["param", 0]]]]])
                else:
                    out.append(["callstmt", 2, [["int", rng.randrange(2, 9)], ["ref", lu]]])
            return out
        when = rng.choice(["before", "before", "after", "both"])
        if when in ("before", "both"):
            body += helper_calls()
        rec = ["pop", ["call", other, [["bin", "-", ["param", 0], ["int", 1]]]]] if rng.random() < .5 else \
              ["store", lt, ["bin", "+", ["load", lt], ["call", other, [["bin", "-", ["param", 0], ["int", 1]]]]]]
        body.append(["if", ["bin", ">", ["param", 0], ["int", 0]], rec, None])
        if when in ("after", "both"):
            body += helper_calls()
        body.append(["log", ["nary", "concat", [B("w%d:" % w), ["itob", ["param", 0]], ["itob", ["load", lu]], ["load", lb], ["itob", ["load", lt]]]]])
        subs.append({"name": "walk%d" % w, "params": [{"k": "u"}], "ret": "u", "rec": True, "locals": locs, "body": body,
                     "retexpr": ["bin", "%", ["bin", "+", ["load", lu], ["load", lt]], ["int", 2**30]]})
    depth = ["bin", "%", ["btoi", ["txna", "ApplicationArgs", 0]], ["int", 4]]
    main = [["log", ["itob", ["call", 3, [depth]]]]]
    return {"mode": "app", "vars": [], "subs": subs, "main": main, "final": ["int", 1]}


def nonlocal_witness(kind):
    """Known finding: Return reached inside a subroutine while operands of an enclosing expression are pending."""
    sub = {"name": "w", "params": [{"k": "u"}], "ret": "u", "locals": [], "rec": False, "body": [],
           "retexpr": ["bin", "+", ["int", 10], ["seqx", [["if", ["param", 0], ["return", ["int", 5]], None]], ["int", 3]]]}
    return {"mode": "app", "vars": [], "subs": [sub], "final": ["int", 1],
            "main": [["log", ["itob", ["bin", "+", ["int", 100], ["call", 0, [["btoi", ["txna", "ApplicationArgs", 0]]]]]]]]}


def has_nonlocal_exit_in_operand(recipe):
    """Syntactic class of the known finding: inside a subroutine, a Return/Break/Continue statement nested in an expression operand."""
    found = []

    def scan_expr(e, inside):
        if not isinstance(e, list) or not e:
            return
        if isinstance(e[0], str):
            if e[0] == "seqx":
                for s in e[1]:
                    scan_stmt(s, True)
                scan_expr(e[2], inside)
                return
            if inside and e[0] in ("return", "break", "continue"):
                found.append(e[0])
            for x in e[1:]:
                scan_expr(x, inside)
        else:
            for x in e:
                scan_expr(x, inside)

    def scan_stmt(s, inside):
        scan_expr(s, inside)
    for sub in recipe.get("subs", []):
        scan_expr(sub["body"], False)
        if sub.get("retexpr") is not None:
            scan_expr(sub["retexpr"], False)
    return bool(found)


# ------------------------------------------------------------------------------------------------ the check
def check_recipe(acc, recipe, version, optsets, ctxs, origin):
    from .. import rcase
    from ..common import h
    key = h(recipe)
    refs = []
    for cd in ctxs:
        ref, dropped = rcase.run_ref(recipe, cd)
        if ref is None:
            acc.counters["dropped_" + dropped] += 1
        refs.append(ref)
    info = rcase.routine_info_for(recipe)
    if int(key, 16) % 4 == 0:
        # the same calls with the scratch-slot optimisation on (as a user gets them by default from v9), under both conventions;
        # the one known optimiser defect is attributed by mechanism exactly as in C01/C03
        from . import c01
        c01.default_options_run(acc, recipe, version, ctxs, refs, origin, None if version >= 9 else True,
                                fp=[None, False][(int(key, 16) >> 3) % 2], known_id=KNOWN_OPT)
        acc.counters["optimised_call_programs"] += 1
    for o in optsets:
        shared = None
        if o.get("reuse_pool") is not None:
            # by-reference families are also compiled with scratch-slot optimisation on, through one OptimizeOptions object that is
            # kept for the whole shard: slots passed by reference must stay protected whatever the object was used for before
            import pyteal as pt
            shared = o["reuse_pool"].setdefault("ss", pt.OptimizeOptions(scratch_slots=True, frame_pointers=o["frame_pointers"]))
            acc.counters["byref_with_reused_optimizer_options"] += 1
        c = rcase.compile_recipe(recipe, version, "app", scratch_slots=False, frame_pointers=o["frame_pointers"], optimize_obj=shared)
        if c.prog is None:
            acc.counters["compile_%s:%s" % ("rejected" if c.pt_error else "crashed", c.errtype)] += 1
            continue
        frame = any(I.op == "proto" for I in c.prog.instrs)
        for cd, ref in zip(ctxs, refs):
            if ref is None:
                continue
            got = rcase.run_avm(c.prog, cd, routine_info=info, max_steps=100 * ref.steps + 20000)
            case = {"recipe": recipe, "version": version, "ctx": cd, "origin": origin, "frame_pointers": o["frame_pointers"], "optimizer_on": shared is not None}
            if got.dropped == "avm_timeout":
                acc.evaluations += 1
                acc.violation("nontermination", case, "reference finished after %d node evaluations, compiled program still running" % ref.steps)
                continue
            if got.dropped:
                acc.counters["dropped_" + got.dropped.split(":")[0]] += 1
                continue
            if rcase.is_resource(got) and ref.status != "fail":
                acc.counters["dropped_resource_limit"] += 1
                continue
            acc.evaluations += 1
            acc.counters["conv_frame" if frame else "conv_scratch"] += 1
            acc.counters["calls_completed"] += len(got.res.calls or [])
            diffs = rcase.compare(ref, got)
            if diffs:
                acc.violation("outcome_mismatch", case, "; ".join(diffs)[:900], teal=c.teal[-3000:])
            else:
                acc.counters["agree_" + ref.status] += 1
            if got.san and ref.status != "fail":
                acc.violation("sanitizer", case, "AVM sanitizer: %r" % (got.san[:2],), teal=c.teal[-3000:])
            if ref.recursion:
                acc.nontrivial.add(key)
                for ev in ref.recursion:
                    acc.counters["recursion_" + ev[0]] += 1
                    if ev[0] == "mutual" and (ev[1] != ev[2] or ev[3] != ev[4]):
                        acc.counters["recursion_mutual_diffkind"] += 1
                    acc.extra.setdefault("recursion_shapes_executed", {}).setdefault("%s caller(ret=%s,arity=%d,locals=%d) callee(ret=%s,arity=%d) %s"
                                                                                    % (ev[0], ev[1], ev[3], ev[5], ev[2], ev[4], "frame" if frame else "scratch"), 0)
                    acc.extra["recursion_shapes_executed"]["%s caller(ret=%s,arity=%d,locals=%d) callee(ret=%s,arity=%d) %s"
                                                           % (ev[0], ev[1], ev[3], ev[5], ev[2], ev[4], "frame" if frame else "scratch")] += 1
            if ref.maxdepth >= 2:
                acc.nontrivial.add(key)
            if origin == "byref_family" and not diffs and "refparam" in str(recipe["subs"]):
                acc.counters["byref_forwarded"] += 1
    if len(acc.samples) < 3 and refs and refs[0] is not None and refs[0].recursion:
        acc.sample({"origin": origin, "version": version, "options": optsets, "routines": [(s["name"], s["ret"], len(s["params"]), len(s.get("locals", []))) for s in recipe["subs"]],
                    "reference_verdict": refs[0].status, "recursion_events": sorted(map(str, refs[0].recursion))[:4]})


def byref_recursion(pt, acc, version):
    from ..common import PT_ERRORS, reset_globals
    reset_globals()

    @pt.Subroutine(pt.TealType.none)
    def r(n, v: pt.ScratchVar):
        return pt.If(n).Then(pt.Seq(v.store(v.load() + n), r(n - pt.Int(1), v)))
    x = pt.ScratchVar(pt.TealType.uint64)
    prog = pt.Seq(x.store(pt.Int(0)), r(pt.Int(3), x), x.load())
    try:
        pt.compileTeal(prog, pt.Mode.Application, version=version)
    except pt.TealInputError:
        acc.counters["byref_recursion_rejected"] += 1
        return
    except PT_ERRORS as e:
        acc.counters["byref_recursion_rejected"] += 1
        return
    acc.violation("byref_recursion_accepted", {"probe": "byref_recursion", "version": version},
                  "a recursive subroutine with a ScratchVar (by-reference) parameter compiled; the slot aliasing cannot survive spilling")


def abi_recursion_probe(pt, acc, version, fp):
    """Recursive ABI-returning routine (hand-built, compiled under a small recursion limit because store_into evaluates the body
    eagerly): sum(n) = n + sum(n-1) with a local that must survive."""
    import sys
    from .. import avm
    from ..common import PT_ERRORS, reset_globals
    reset_globals()
    old = sys.getrecursionlimit()
    sys.setrecursionlimit(260)
    try:
        @pt.ABIReturnSubroutine
        def tri(n: pt.abi.Uint64, *, output: pt.abi.Uint64):
            keep = pt.abi.Uint64()
            inner = pt.abi.Uint64()
            m = pt.abi.Uint64()
            return pt.Seq(
                keep.set(n.get() * pt.Int(3)),
                pt.If(n.get() == pt.Int(0)).Then(output.set(pt.Int(0))).Else(pt.Seq(
                    m.set(n.get() - pt.Int(1)), tri(m).store_into(inner),
                    pt.Assert(keep.get() == n.get() * pt.Int(3)),
                    output.set(inner.get() + n.get()))))
        x = pt.abi.Uint64()
        a = pt.abi.Uint64()
        prog = pt.Seq(a.set(pt.Btoi(pt.Txn.application_args[0])), tri(a).store_into(x), pt.Log(pt.Itob(x.get())), pt.Int(1))
        try:
            teal = pt.compileTeal(prog, pt.Mode.Application, version=version, optimize=pt.OptimizeOptions(scratch_slots=False, frame_pointers=fp))
        except PT_ERRORS as e:
            acc.counters["abi_recursion_probe_rejected"] += 1
            return
    finally:
        sys.setrecursionlimit(old)
    for n in (0, 1, 4):
        r = avm.run(avm.parse_any(teal), avm.Ctx(group=[{"ApplicationArgs": [n.to_bytes(8, "big")]}]))
        acc.evaluations += 1
        exp = n * (n + 1) // 2
        if r.status != "approve" or not r.logs or int.from_bytes(r.logs[-1], "big") != exp or r.san:
            acc.violation("abi_recursion", {"probe": "abi_recursion", "version": version, "frame_pointers": fp, "n": n},
                          "tri(%d) expected %d, observed status=%s err=%s logs=%r san=%r" % (n, exp, r.status, r.error, r.logs, r.san[:1]))
        else:
            acc.counters["abi_recursion_probe_ok"] += 1


def declared_type_probe(pt, acc, rng, version, fp):
    """Subroutines of every declared return type - none, uint64, bytes and anytype - called with pending operands on both sides,
    under both calling conventions: the call yields exactly the value the body returns (anytype routines return one value too)."""
    from .. import avm
    from ..common import PT_ERRORS, reset_globals
    reset_globals()
    prog = declared_type_program(pt)
    try:
        teal = pt.compileTeal(prog, pt.Mode.Application, version=version, optimize=pt.OptimizeOptions(scratch_slots=False, frame_pointers=fp))
    except PT_ERRORS as e:
        acc.violation("declared_type_probe_rejected", {"probe": "declared_type", "version": version, "frame_pointers": fp}, "%s: %s" % (type(e).__name__, str(e)[:200]))
        return
    p = avm.parse_any(teal)
    for n in (0, 2, 5):
        r = avm.run(p, avm.Ctx(group=[{"ApplicationArgs": [n.to_bytes(8, "big")]}]))
        acc.evaluations += 1
        exp = [(1100 + n).to_bytes(8, "big"), b"<abc>", (7 * 41 + n + 1).to_bytes(8, "big"), (n + 2).to_bytes(8, "big"), (5000 + n * (n + 1) // 2).to_bytes(8, "big")]
        if r.status != "approve" or r.logs != exp or r.san:
            acc.violation("outcome_mismatch", {"probe": "declared_type", "version": version, "frame_pointers": fp, "n": n},
                          "subroutines of declared type anytype/uint64/none: expected logs %r, observed status=%s err=%s logs=%r san=%r" % (exp, r.status, r.error, r.logs, r.san[:1]), teal=teal[-2000:])
        else:
            acc.counters["declared_type_probe_ok"] += 1


def declared_type_program(pt):
    I, B = pt.Int, pt.Bytes

    @pt.Subroutine(pt.TealType.anytype)
    def ident(x):
        return x

    @pt.Subroutine(pt.TealType.anytype)
    def pick_state(k):
        loc = pt.ScratchVar(pt.TealType.uint64)
        return pt.Seq(loc.store(I(3)), pt.App.globalGet(k))

    @pt.Subroutine(pt.TealType.anytype)
    def rec_any(n, acc_):
        return pt.If(n == I(0)).Then(acc_).Else(rec_any(n - I(1), acc_ + n))

    @pt.Subroutine(pt.TealType.uint64)
    def plain(x):
        return x + I(1)

    @pt.Subroutine(pt.TealType.none)
    def note(x):
        return pt.Log(pt.Itob(x))
    a = pt.Btoi(pt.Txn.application_args[0])
    prog = pt.Seq(
        pt.App.globalPut(B("g"), I(41)),
        pt.Log(pt.Itob(I(100) + ident(a) + I(1000))),
        pt.Log(pt.Concat(B("<"), ident(B("abc")), B(">"))),
        pt.Log(pt.Itob(I(7) * pick_state(B("g")) + plain(a))),
        note(ident(a) + plain(I(1))),
        pt.Log(pt.Itob(I(5000) + rec_any(a, I(0)))),
        I(1))
    return prog


def run_shard(shard):
    import pyteal as pt
    from ..common import Acc, rng_for
    acc = Acc()
    if "replay" in shard:
        c = shard["replay"]
        if c.get("probe") == "byref_recursion":
            byref_recursion(pt, acc, c["version"])
        elif c.get("probe") == "declared_type":
            declared_type_probe(pt, acc, rng_for(0, "replay"), c["version"], c["frame_pointers"])
        elif c.get("probe") == "abi_recursion":
            abi_recursion_probe(pt, acc, c["version"], c["frame_pointers"])
        else:
            check_recipe(acc, c["recipe"], c["version"], [{"frame_pointers": c.get("frame_pointers")}], [c["ctx"]], c.get("origin", "replay"))
        return acc.result()
    rng = rng_for(shard["seed"], "c02", shard["shard"])
    reuse_pool = {}
    for it in range(shard["n"]):
        version = rng.choice([4, 5, 6, 6, 7, 8, 8, 9, 10])
        r = rng.random()
        if r < .55:
            g = recipes.Gen(rng, version=version, mode="app", min_subs=1, rec_p=.6, call_bias=.12)
            try:
                recipe = g.program()
            except RecursionError:
                continue
            origin = "random"
            version = max(version, recipes.min_version(recipe))
        elif r < .8:
            recipe = mutual_family(rng)
            origin = "mutual_family"
            version = max(version, 5)
        elif r < .87:
            recipe = byref_family(rng)
            origin = "byref_family"
            version = max(version, 5)
        elif r < .93:
            recipe = recursive_byref_local(rng)
            origin = "recursive_byref_local"
            version = max(version, 5)
        else:
            n = rng.randrange(0, 13)
            recipe = ladder(n, rng.choice(["u", "b"]), rng)
            origin = "ladder"
            version = max(version, 5)
            acc.counters["ladder_cases"] += 1
        ctxs = [recipes.gen_ctx_desc(rng, "app") for _ in range(3)]
        osets = option_sets(rng, version)
        if origin == "byref_family":
            osets = osets + [{"frame_pointers": False if version >= 8 else None, "reuse_pool": reuse_pool}]
        check_recipe(acc, recipe, version, osets, ctxs, origin)
        acc.counters["recipes_" + origin] += 1
    # ---- probes
    for v in (5, 8):
        byref_recursion(pt, acc, v)
    sh = shard["shard"]
    combos = [(6, None), (7, False), (8, None), (8, False), (10, None), (9, True)]
    v, fp = combos[sh % len(combos)]
    abi_recursion_probe(pt, acc, v, fp)
    for v2, fp2 in ((5, None), (7, None), (8, None), (8, False), (10, None), (10, True)):
        declared_type_probe(pt, acc, rng, v2, fp2)
    # ---- known finding probe (input class: non-local exit from operand position inside a subroutine)
    if sh == 0:
        w = nonlocal_witness("return")
        for v, fp in ((6, None), (8, None)):
            from .. import rcase
            c = rcase.compile_recipe(w, v, "app", scratch_slots=False, frame_pointers=fp)
            cd = recipes.gen_ctx_desc(rng, "app")
            cd["args"][0] = (1).to_bytes(8, "big").hex()
            ref, _ = rcase.run_ref(w, cd)
            got = rcase.run_avm(c.prog, cd)
            if rcase.compare(ref, got):
                acc.violation("outcome_mismatch", {"recipe": w, "version": v, "ctx": cd, "origin": "nonlocal_probe", "frame_pointers": fp},
                              "; ".join(rcase.compare(ref, got)))
            else:
                acc.counters["nonlocal_probe_agrees"] += 1
    return acc.result()


def classify(v):
    case = v.get("case") or {}
    if case.get("mechanism") == KNOWN_OPT and case.get("optimizer_unpaired"):
        return KNOWN_OPT
    if case.get("origin") == "nonlocal_probe" and case.get("recipe") and has_nonlocal_exit_in_operand(case["recipe"]):
        return NONLOCAL
    return None


MANIFEST_ENTRY = {
    "technique": "runtime differential + call-boundary sanitizer: compiled call graphs executed on the reference AVM vs a reference evaluator with real call semantics",
    "text": ("Generated call graphs (random and hand-built mutual-recursion families whose locals must survive the inner call, an arity "
             "ladder 0..12, ABI-returning recursion probes) are compiled by the real compiler for versions 4-10 under both calling "
             "conventions and executed; outcomes are compared with a reference evaluator that implements function-call semantics, and "
             "independently the AVM's call-boundary sanitizer checks at every retsub that the caller's pending stack is unchanged and the "
             "declared number of values was consumed and produced. By-reference recursion must be rejected. Held = held on the "
             "executions listed (recursion shapes executed are enumerated in the evidence). A quarter of the call programs are also compiled with the scratch-slot optimisation on under both conventions (known optimiser defect attributed by mechanism); recursive routines that hand locals by reference to helpers and routines of every declared return type (anytype included) have their own families."),
    "note": "Trusted: vlib/refeval.py call semantics, vlib/avm.py. Known finding (non-local exit from operand position inside a subroutine) is probed, not part of the main workload.",
}
