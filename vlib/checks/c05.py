"""C05 - emitted code keeps stack and type discipline on every path.

Monitors: (1) forced-branch run of every emitted routine (vlib/cfg.abstract_run): both outcomes of every bz/bnz are driven
until the shadow state per pc is stable, with shadow values i/b/? and the stack effects of the hand-written AVM table; it reports
different heights at a join, pops below what the routine owns, a wrong result count at retsub, frame accesses outside the frame,
extra values at the main routine's return, and opcodes applied to definitely wrong types.  (2) concrete executions on the
reference AVM with the type/stack/height/frame/call-boundary sanitizers on: a program without anytype-typed expressions must
never fail with a type or stack error, and no sanitizer may fire on a run that does not fail.
"""
from .. import recipes

RECURSION_LIMIT = 6000

SPEC = {
    "level": "exploration",
    "rule": ("sources: constructor catalogue (~670 entries) x versions 2..10 x both modes; random recipes (general, call graphs, mutual "
             "recursion, optimiser family) under random option settings with scratch-slot optimisation off and on (the known optimiser "
             "defect is attributed as in C03); label hazards; ABI encode programs in main and inside subroutines; routers; the repository's example programs (scratch-slot optimisation off); every program the compiler returns to the repository's own tests (recorded by a sys.monitoring return hook while pytest runs them; scratch-slot optimisation off, height/ownership/frame findings only).  An evaluation "
             "is one emitted program driven over all its CFG edges by the forced-branch run (and, for recipes, 3 concrete executions "
             "under sanitizers); non-trivial = the program has at least one conditional branch or callsub; distinct = distinct texts."),
    "assumptions": ["vlib/langspec.py stack signatures ('certain' entries)", "vlib/cfg.py forced-branch exploration (calibrated on all golden TEAL)",
                    "vlib/avm.py sanitizers"],
    "min_evaluations": {"quick": 8000, "thorough": 60000},
    "must_reach": ["abstract_ok", "forced_branches", "routines_analysed", "concrete_runs", "frame_routines", "src_catalogue", "src_recipe", "src_abi", "src_router", "src_corpus", "src_suite", "typed_join_rejected", "statement_position_rejected", "typed_store_rejected_frame", "typed_store_rejected_scratch", "operand_type_rejected", "operand_type_accepted"],
    "shard_timeout": {"quick": 2400, "thorough": 14400},
}

KNOWN_OPT = "C05-optimizer-unpaired-store"
ANY_NODES = {"gget", "gex", "lget"}


def plan(tier, seed):
    n = 16 if tier == "quick" else 64
    return [{"seed": seed, "shard": i, "nshards": n, "tier": tier, "recipes": 300 if tier == "quick" else 1500,
             "labels": 10 if tier == "quick" else 80, "routers": 4 if tier == "quick" else 20, "abi": 25 if tier == "quick" else 200} for i in range(n)] + [
        {"seed": seed, "shard": n, "nshards": n, "tier": tier, "suite": True}]


def judge_text(acc, tag, mode, version, text, case, seen, anytype=False):
    from .. import cfg
    from .. import tealgrammar as G
    from ..common import h
    try:
        prog = G.parse_any(text)
    except G.ParseError as e:
        acc.counters["unparseable"] += 1  # C04's subject
        return None
    acc.evaluations += 1
    acc.counters["src_" + tag] += 1
    findings, st = cfg.abstract_run(prog)
    acc.counters["forced_branches"] += st.get("forced_branches", 0)
    acc.counters["routines_analysed"] += st.get("routines", 0)
    acc.counters["abstract_pcs"] += st.get("abstract_pcs", 0)
    if any(I.op == "proto" for I in prog.instrs):
        acc.counters["frame_routines"] += 1
    if st.get("abstract_incomplete") or st.get("abstract_unknown_op") or st.get("abstract_no_fixpoint") or st.get("abstract_iter_cap"):
        acc.counters["abstract_incomplete"] += 1
    key = h(text)
    if key not in seen and any(I.op in ("bz", "bnz", "callsub") for I in prog.instrs):
        acc.nontrivial.add(key)
    seen.add(key)
    if anytype:
        findings = [f for f in findings if f.kind != "type"]
    if findings:
        acc.violation("discipline", case, "; ".join(repr(f) for f in findings[:3])[:900], teal=text[-2500:])
    else:
        acc.counters["abstract_ok"] += 1
        if len(prog.instrs) > 25 and st.get("forced_branches", 0) >= 2:
            acc.sample({"source": tag, "mode": mode, "version": version, "instructions": len(prog.instrs), "routines": st.get("routines"),
                        "forced_branches": st.get("forced_branches"), "shadow_states": st.get("abstract_pcs"), "head": text.split("\n")[1:7]}, cap=3)
    return prog


def run_shard(shard):
    import pyteal as pt
    from .. import feed, rcase
    from ..common import Acc, jsonable, rng_for
    from . import c02, c03
    acc = Acc()
    seen = set()
    probe = c03.OptProbe()
    if "replay" in shard:
        c = shard["replay"]
        if "recipe" in c:
            check_recipe(acc, probe, c["recipe"], c["version"], c["mode"], tuple(c["opts"]), [c["ctx"]] if c.get("ctx") else [], seen)
        elif c.get("source") in ("statement_position_probe", "typed_store_probe", "operand_type_probe", "typed_join_probe"):
            # probe families are re-run from fixed seeds (they are cheap): the witness is found again if the defect is still there
            from ..common import rng_for as _rf
            fam = {"statement_position_probe": statement_position_probes, "typed_store_probe": typed_store_probes,
                   "operand_type_probe": operand_type_probes, "typed_join_probe": typed_join_probes}[c["source"]]
            for k in range(4):
                fam(pt, acc, seen, _rf(k, "c05-replay"), 400)
        elif c.get("source") == "catalogue":
            from .. import opcatalog
            ent = next(e for e in opcatalog.entries(pt) if e[0] == c["desc"]["entry"])
            it = feed.Item("catalogue", c["mode"], c["version"], (None, None), c["desc"])
            feed._compile(pt, it, lambda: opcatalog.wrap(pt, ent), assemble=c["desc"].get("assemble", False))
            if it.teal:
                judge_text(acc, "catalogue", c["mode"], c["version"], it.teal, c, seen)
        return acc.result()
    if shard.get("suite"):
        return suite_shard(acc, seen, shard["tier"])
    rng = rng_for(shard["seed"], "c05", shard["shard"])
    for it in feed.catalogue_items(pt, rng, shard["shard"], shard["nshards"]):
        if it.teal is None:
            acc.counters["not_emitted"] += 1
            continue
        judge_text(acc, "catalogue", it.mode, it.version, it.teal, {"source": "catalogue", "mode": it.mode, "version": it.version, "desc": jsonable(it.desc)}, seen,
                   anytype=it.anytype)
    for gen in (feed.corpus_items(pt, rng, shard["shard"], shard["nshards"]), feed.label_items(pt, rng, shard["labels"]), feed.declared_type_items(pt, rng), feed.tail_items(pt, rng, 3 * shard["labels"]), feed.sequence_items(pt, rng, shard["labels"]), feed.router_items(pt, rng, shard["routers"]),
                feed.abi_items(pt, rng, shard["abi"])):
        for it in gen:
            if it.teal is None:
                acc.counters["not_emitted"] += 1
                continue
            if it.tag == "corpus" and it.opts[0] in (True, None) and (it.opts[0] or it.version >= 9):
                continue  # scratch-slot optimisation on: the known optimiser defect is attributed through recipes only (probe + counterfactual)
            judge_text(acc, it.tag, it.mode, it.version, it.teal, {"source": it.tag, "mode": it.mode, "version": it.version, "desc": jsonable(it.desc)}, seen,
                       anytype=it.anytype)
    # ---- recipes: abstract + concrete
    for i in range(shard["recipes"]):
        vgen = rng.choice([2, 3, 4, 5, 6, 7, 8, 9, 10])
        mode = "sig" if rng.random() < .2 else "app"
        r = rng.random()
        try:
            if r < .06:
                from . import c01
                recipe, mode = c01.first_statement_family(rng), "app"
            elif r < .55:
                recipe = recipes.Gen(rng, version=vgen, mode=mode, min_subs=rng.choice([0, 1]), call_bias=.05).program()
            elif r < .62 and mode == "app":
                recipe = c02.byref_family(rng) if rng.random() < .6 else c02.recursive_byref_local(rng)
            elif r < .75 and mode == "app":
                recipe = c02.mutual_family(rng)
            elif mode == "app":
                recipe = c03.opt_family(rng, vgen)
            else:
                recipe = recipes.Gen(rng, version=vgen, mode=mode).program()
        except RecursionError:
            continue
        lo = max(recipes.min_version(recipe), 5 if recipe["subs"] and r >= .55 and r < .75 else 2)
        v = max(vgen, lo)
        ss = rng.choice([False, False, None, True])
        fp = rng.choice([None, None, False] + ([True] if v >= 8 else []))
        ctxs = [recipes.gen_ctx_desc(rng, mode) for _ in range(3)]
        check_recipe(acc, probe, recipe, v, mode, (ss, fp), ctxs, seen)
    for v in (6, 8, 10):
        history_probe(pt, acc, seen, v)
    typed_join_probes(pt, acc, seen, rng, 60 if shard["tier"] == "quick" else 400)
    statement_position_probes(pt, acc, seen, rng, 60 if shard["tier"] == "quick" else 400)
    typed_store_probes(pt, acc, seen, rng, 60 if shard["tier"] == "quick" else 400)
    operand_type_probes(pt, acc, seen, rng, 80 if shard["tier"] == "quick" else 800)
    return acc.result()


def suite_shard(acc, seen, tier):
    """The repository's own tests as workload.  Their programs may be ill-typed at run time on purpose (they never run), so only the
    height/ownership/frame findings are judged; compilations with the scratch-slot optimisation on are left to the recipe families,
    where the known optimiser defect is attributed by counterfactual."""
    from .. import suite
    recs, st = suite.record(tier)
    acc.counters["suite_raw_records"] += st["raw_records"]
    for r in recs:
        if r.get("mode") not in ("Application", "Signature") or not isinstance(r.get("version"), int):
            continue
        if suite.scratch_optimised(r):
            acc.counters["suite_skipped_scratch_optimised"] += 1
            continue
        judge_text(acc, "suite", "app" if r["mode"] == "Application" else "sig", r["version"], r["teal"],
                   {"source": "suite", "mode": r["mode"], "version": r["version"], "tests": r["tests"]}, seen, anytype=True)
    return acc.result()


def history_probe(pt, acc, seen, version):
    """Discipline must not depend on what failed earlier in the process: a subroutine body raises while it is evaluated (the caller
    catches it), then a program with ABI values in its main routine is compiled *without* resetting anything, and judged."""
    from .. import avm

    class Boom(Exception):
        pass
    try:
        @pt.Subroutine(pt.TealType.uint64)
        def bad(a):
            x = pt.abi.Uint64()
            raise Boom("user code failed inside a subroutine body")
        y = pt.abi.Uint64()
        pt.compileTeal(pt.Seq(y.set(1), bad(y.get())), pt.Mode.Application, version=version)
    except Boom:
        pass
    a, b, s = pt.abi.Uint64(), pt.abi.Uint16(), pt.abi.String()
    prog = pt.Seq(a.set(5), b.set(a.get() + pt.Int(2)), s.set("xy"), pt.Log(pt.Concat(s.get(), pt.Itob(a.get() + b.get()))), pt.Int(1))
    try:
        teal = pt.compileTeal(prog, pt.Mode.Application, version=version)
    except Exception as e:
        acc.counters["history_probe_not_emitted"] += 1
        return
    case = {"source": "history_probe", "mode": "app", "version": version, "desc": {"history": "subroutine body raised, then ABI values in main"}}
    p = judge_text(acc, "history_probe", "app", version, teal, case, seen)
    if p is not None:
        r = avm.run(p, avm.Ctx())
        acc.counters["concrete_runs"] += 1
        if r.status == "fail" and r.error_kind in ("type", "stack", "frame"):
            acc.violation("runtime_discipline", case, "after a failed compilation, a program without anytype expressions failed with a %s error: %s" % (r.error_kind, r.error), teal=teal[-1200:])


def typed_join_probes(pt, acc, seen, rng, n):
    """Conditional constructs assembled with arms of *different* types in every position: the constructors must either reject them
    or the emitted program must be type-safe.  The expression is consumed by an opcode of its own declared type (Itob for uint64,
    Len for bytes) and every arm is driven by a context; a run-time type failure is a violation (no anytype is involved)."""
    from .. import avm
    from ..common import PT_ERRORS, reset_globals
    I, B = pt.Int, pt.Bytes
    for _ in range(n):
        reset_globals()
        k = rng.choice([2, 3, 3, 4])
        types = [rng.choice("ub") for _ in range(k)]
        if len(set(types)) == 1:
            types[rng.randrange(k)] = "b" if types[0] == "u" else "u"
        form = rng.choice(["if_fn", "if_then_else", "elseif", "elseif", "cond", "nested"])
        version = rng.choice([2, 4, 6, 8, 10])
        sel = lambda i: pt.Btoi(pt.Txn.application_args[0]) == I(i)  # noqa: E731
        val = lambda t, i: I(10 + i) if t == "u" else B("v%d" % i)  # noqa: E731
        case = {"source": "typed_join_probe", "form": form, "arm_types": types, "version": version}
        try:
            if form == "if_fn":
                e = pt.If(sel(0), val(types[0], 0), val(types[1], 1))
            elif form == "if_then_else":
                e = pt.If(sel(0)).Then(val(types[0], 0)).Else(val(types[1], 1))
            elif form == "elseif":
                e = pt.If(sel(0)).Then(val(types[0], 0))
                for i in range(1, k - 1):
                    e = e.ElseIf(sel(i)).Then(val(types[i], i))
                e = e.Else(val(types[k - 1], k - 1))
            elif form == "cond":
                e = pt.Cond(*[[sel(i), val(types[i], i)] for i in range(k - 1)], [I(1), val(types[k - 1], k - 1)])
            else:
                inner = pt.If(sel(1)).Then(val(types[1], 1)).Else(val(types[-1], k - 1))
                e = pt.If(sel(0)).Then(val(types[0], 0)).Else(inner)
            declared = e.type_of()
            consumer = pt.Itob(e) if declared == pt.TealType.uint64 else pt.Len(e) if declared == pt.TealType.bytes else None
            if consumer is None:
                acc.counters["typed_join_anytype"] += 1
                continue
            teal = pt.compileTeal(pt.Seq(pt.Pop(consumer), I(1)), pt.Mode.Application, version=version)
        except PT_ERRORS:
            acc.counters["typed_join_rejected"] += 1
            continue
        except Exception as e2:
            acc.counters["typed_join_crashed:" + type(e2).__name__] += 1
            continue
        acc.evaluations += 1
        acc.counters["typed_join_accepted"] += 1
        p = judge_text(acc, "typed_join_probe", "app", version, teal, case, seen)
        if p is None:
            continue
        for i in range(k):
            r = avm.run(p, avm.Ctx(group=[{"ApplicationArgs": [i.to_bytes(8, "big")]}]))
            acc.counters["concrete_runs"] += 1
            if r.status == "fail" and r.error_kind == "type":
                acc.violation("runtime_discipline", dict(case, arm=i), "a conditional whose arms have types %s was accepted with declared type %s; taking arm %d fails with %s"
                              % (types, declared, i, r.error), teal=teal[-800:])
                break


def statement_position_probes(pt, acc, seen, rng, n):
    """Value-producing expressions of every type (uint64, bytes and the anytype sources: state reads, untyped scratch loads, Gload,
    anytype subroutines) put where a statement is expected - a non-final Seq element, a loop body, an If arm without Else, a later
    Cond arm after a none arm, a For start/step.  Either the constructor rejects them, or the emitted program must keep the stack
    balanced (the forced-branch run judges every join and every exit)."""
    from ..common import PT_ERRORS, reset_globals
    I, B = pt.Int, pt.Bytes
    for _ in range(n):
        reset_globals()
        version = rng.choice([4, 5, 6, 8, 10])
        src = rng.choice(["uint", "bytes", "gget", "lget", "sv_any", "gload", "sub_any", "maybe_value"])
        pos = rng.choice(["seq_nonfinal", "while_body", "for_body", "for_step", "if_then_only", "cond_later_arm", "sub_body_nonfinal"])
        case = {"source": "statement_position_probe", "value": src, "position": pos, "version": version}
        try:
            sv = pt.ScratchVar()  # anytype
            if src == "uint":
                e = I(7) + I(1)
            elif src == "bytes":
                e = B("xy")
            elif src == "gget":
                e = pt.App.globalGet(B("k"))
            elif src == "lget":
                e = pt.App.localGet(pt.Txn.sender(), B("k"))
            elif src == "sv_any":
                e = sv.load()
            elif src == "gload":
                e = pt.ImportScratchValue(0, 3)
            elif src == "maybe_value":
                e = pt.App.globalGetEx(I(0), B("k")).value()
            else:
                @pt.Subroutine(pt.TealType.anytype)
                def anyv():
                    return pt.App.globalGet(B("q"))
                e = anyv()
            c = pt.Btoi(pt.Txn.application_args[0])
            i = pt.ScratchVar(pt.TealType.uint64)
            pre = [sv.store(I(1))]
            if pos == "seq_nonfinal":
                body = pt.Seq(*pre, e, I(1))
            elif pos == "while_body":
                body = pt.Seq(*pre, i.store(I(0)), pt.While(i.load() < c).Do(pt.Seq(i.store(i.load() + I(1)), e)), I(1))
            elif pos == "for_body":
                body = pt.Seq(*pre, pt.For(i.store(I(0)), i.load() < c, i.store(i.load() + I(1))).Do(e), I(1))
            elif pos == "for_step":
                body = pt.Seq(*pre, pt.For(i.store(I(0)), i.load() < c, pt.Seq(i.store(i.load() + I(1)), e)).Do(pt.Pop(I(1))), I(1))
            elif pos == "if_then_only":
                body = pt.Seq(*pre, pt.If(c).Then(e), I(1))
            elif pos == "cond_later_arm":
                body = pt.Seq(*pre, pt.Cond([c == I(1), pt.Pop(I(2))], [c == I(2), e], [I(1), pt.Pop(I(3))]), I(1))
            else:
                @pt.Subroutine(pt.TealType.uint64)
                def wrap():
                    return pt.Seq(*pre, e, I(1))
                body = wrap()
            teal = pt.compileTeal(body, pt.Mode.Application, version=version, optimize=pt.OptimizeOptions(scratch_slots=False))
        except PT_ERRORS:
            acc.counters["statement_position_rejected"] += 1
            continue
        except Exception as e2:
            acc.counters["statement_position_crashed:" + type(e2).__name__] += 1
            continue
        acc.evaluations += 1
        acc.counters["statement_position_accepted"] += 1
        judge_text(acc, "statement_position_probe", "app", version, teal, case, seen, anytype=True)


def typed_store_probes(pt, acc, seen, rng, n):
    """A value of the wrong concrete type written into an ABI value through the entry points that rely on the backing storage for
    their type check (decode(expr), set(expr) on Address/StaticBytes/String/uints), with the ABI value backed by a scratch slot (main
    routine, subroutine below v8 or with frame pointers off) and by a frame cell (subroutine under frame pointers).  The constructor
    has to reject it in every configuration, or else the emitted program has to be type-safe (abstract run with types on + a
    concrete run)."""
    from typing import Literal
    from .. import avm
    from ..common import PT_ERRORS, reset_globals
    I, B = pt.Int, pt.Bytes
    abi = pt.abi
    for _ in range(n):
        reset_globals()
        kind = rng.choice(["tuple_decode", "dynarray_decode", "staticarray_decode", "address_set", "staticbytes_set", "string_set", "uint64_set", "bool_set", "string_decode"])
        where = rng.choice(["main", "sub", "sub", "abisub"])
        version = rng.choice([6, 7, 8, 8, 9, 10])
        fp = rng.choice([None, None, False]) if version >= 8 else None
        case = {"source": "typed_store_probe", "kind": kind, "where": where, "version": version, "fp": fp}
        wrong_u = pt.Len(pt.Txn.application_args[0])          # a uint64 where bytes are required
        wrong_b = pt.Concat(pt.Txn.application_args[0], B("z"))  # bytes where a uint64 is required

        def write():
            if kind == "tuple_decode":
                x = abi.make(abi.Tuple2[abi.Uint64, abi.Uint64])
                return x, x.decode(wrong_u), pt.Len(x.encode())
            if kind == "dynarray_decode":
                x = abi.make(abi.DynamicArray[abi.Uint16])
                return x, x.decode(wrong_u), x.length()
            if kind == "staticarray_decode":
                x = abi.make(abi.StaticArray[abi.Uint8, Literal[4]])
                return x, x.decode(wrong_u), pt.Len(x.encode())
            if kind == "string_decode":
                x = abi.String()
                return x, x.decode(wrong_u), pt.Len(x.get())
            if kind == "address_set":
                x = abi.Address()
                return x, x.set(wrong_u), pt.Len(x.get())
            if kind == "staticbytes_set":
                x = abi.make(abi.StaticBytes[Literal[8]])
                return x, x.set(wrong_u), pt.Len(x.get())
            if kind == "string_set":
                x = abi.String()
                return x, x.set(wrong_u), pt.Len(x.get())
            if kind == "uint64_set":
                x = abi.Uint64()
                return x, x.set(wrong_b), x.get() + I(1)
            x = abi.Bool()
            return x, x.set(wrong_b), x.get() + I(1)
        try:
            if where == "main":
                x, w, use = write()
                prog = pt.Seq(w, pt.Pop(use), I(1))
            elif where == "sub":
                @pt.Subroutine(pt.TealType.uint64)
                def inner(a):
                    x, w, use = write()
                    return pt.Seq(w, use + a)
                prog = pt.Seq(pt.Pop(inner(I(3))), I(1))
            else:
                @pt.ABIReturnSubroutine
                def inner_abi(a: abi.Uint64, *, output: abi.Uint64):
                    x, w, use = write()
                    return pt.Seq(w, output.set(use + a.get()))
                arg, res = abi.Uint64(), abi.Uint64()
                prog = pt.Seq(arg.set(3), inner_abi(arg).store_into(res), pt.Pop(res.get()), I(1))
            opts = None if fp is None else pt.OptimizeOptions(frame_pointers=fp)
            teal = pt.compileTeal(prog, pt.Mode.Application, version=version, optimize=opts)
        except PT_ERRORS:
            acc.counters["typed_store_rejected"] += 1
            acc.counters["typed_store_rejected_" + ("frame" if where != "main" and version >= 8 and fp is not False else "scratch")] += 1
            continue
        except Exception as e2:
            acc.counters["typed_store_crashed:" + type(e2).__name__] += 1
            continue
        acc.evaluations += 1
        acc.counters["typed_store_accepted"] += 1
        p = judge_text(acc, "typed_store_probe", "app", version, teal, case, seen)
        if p is None:
            continue
        r = avm.run(p, avm.Ctx(group=[{"ApplicationArgs": [b"\x00" * 40]}]))
        acc.counters["concrete_runs"] += 1
        if r.status == "fail" and r.error_kind == "type":
            acc.violation("runtime_discipline", case, "a value of the wrong concrete type was accepted by %s (%s, v%d, frame_pointers=%s) and the program fails with %s" % (kind, where, version, fp, r.error), teal=teal[-800:])


def has_anytype(pt, root, cap=200000):
    """Does any expression reachable from the built program (through attributes, lists, dicts; subroutine declarations included once
    they have been evaluated) declare TealType.anytype?  The property's run-time clause speaks about programs without such
    expressions only."""
    seen, stack, n = set(), [root], 0
    while stack and n < cap:
        o = stack.pop()
        if id(o) in seen or o is None or isinstance(o, (str, bytes, int, float, bool, type)):
            continue
        seen.add(id(o))
        n += 1
        if isinstance(o, pt.Expr):
            try:
                if o.type_of() == pt.TealType.anytype:
                    return True
            except Exception:
                pass
        if isinstance(o, (list, tuple, set, frozenset)):
            stack.extend(o)
        elif isinstance(o, dict):
            stack.extend(o.values())
        else:
            d = getattr(o, "__dict__", None)
            if d and type(o).__module__.startswith("pyteal"):
                stack.extend(d.values())
    return False


def operand_type_probes(pt, acc, seen, rng, n):
    """Every constructor of the catalogue with one literal operand replaced by a literal of the other type (uint64 <-> bytes): the
    constructor rejects it, or accepts it because that operand may have either type - then the emitted program must still be
    type-safe (abstract run with types on, and a concrete run must not fail with a type error)."""
    from .. import avm, opcatalog
    from ..common import PT_ERRORS, reset_globals
    # (ScratchIndexed is the raw ScratchStore/ScratchLoad API: the load's type is the user's own assertion about an untyped slot)
    E = [(ent, nl) for ent in opcatalog.entries(pt) if ent[0] != "ScratchIndexed" for nl in [opcatalog.count_literals(pt, ent)] if nl]
    acc.counters["operand_probe_entries_with_literals"] = len(E)
    for _ in range(n):
        reset_globals()
        ent, nl = rng.choice(E)
        k = rng.randrange(1, nl + 1)
        mode = "sig" if ent[2] == "sig" else "app"
        version = rng.choice([8, 9, 10])
        case = {"source": "operand_type_probe", "entry": ent[0], "flipped_literal": k, "version": version, "mode": mode}
        try:
            prog = opcatalog.wrap_flipped(pt, ent, k)
            teal = pt.compileTeal(prog, pt.Mode.Application if mode == "app" else pt.Mode.Signature, version=version)
        except PT_ERRORS:
            acc.counters["operand_type_rejected"] += 1
            continue
        except Exception as e2:
            acc.counters["operand_type_crashed:" + type(e2).__name__] += 1  # C20's subject
            continue
        acc.evaluations += 1
        acc.counters["operand_type_accepted"] += 1
        anyt = has_anytype(pt, prog)
        if anyt:
            acc.counters["operand_type_accepted_with_anytype(types not judged)"] += 1
        p = judge_text(acc, "operand_type_probe", mode, version, teal, case, seen, anytype=anyt)
        if p is None or anyt:
            continue
        try:
            r = avm.run(p, avm.Ctx(mode=mode, group=[{"ApplicationArgs": [b"\x00" * 8] * 4}], args=[b"\x00" * 8] * 4))
        except (avm.Unsupported, avm.Timeout):
            continue
        acc.counters["concrete_runs"] += 1
        if r.status == "fail" and r.error_kind == "type":
            acc.violation("runtime_discipline", case, "catalogue entry %s with literal operand %d of the other type was accepted and fails at run time with %s" % (ent[0], k, r.error), teal=teal[-800:])


def check_recipe(acc, probe, recipe, v, mode, opts, ctxs, seen):
    from .. import rcase
    from . import c03
    ss, fp = opts
    probe.reset()
    c = rcase.compile_recipe(recipe, v, mode, scratch_slots=ss, frame_pointers=fp)
    events = list(probe.events)
    if c.prog is None:
        acc.counters["not_emitted"] += 1
        return
    unpaired = c03.known_mechanism(events)
    has_any = any(n[0] in ANY_NODES for n in recipes.all_nodes(recipe))
    case = {"recipe": recipe, "version": v, "mode": mode, "opts": [ss, fp], "optimizer_unpaired": unpaired}
    nviol = len(acc.violations)
    tot = acc.counters["violations_total"]
    judge_text(acc, "recipe", mode, v, c.teal, case, seen, anytype=has_any)
    bad = acc.counters["violations_total"] > tot
    info = rcase.routine_info_for(recipe)
    for cd in ctxs:
        got = rcase.run_avm(c.prog, cd, routine_info=info)
        if got.dropped:
            acc.counters["dropped_" + got.dropped.split(":")[0]] += 1
            continue
        acc.counters["concrete_runs"] += 1
        kind = got.res.error_kind if got.res is not None else ""
        if got.status == "fail" and kind in ("type", "stack", "frame") and not has_any and not rcase.is_resource(got):
            acc.violation("runtime_discipline", dict(case, ctx=cd), "a program without anytype expressions failed with a %s error: %s" % (kind, got.error), teal=c.teal[-2500:])
            bad = True
        elif got.san and got.status != "fail":
            acc.violation("sanitizer", dict(case, ctx=cd), "AVM sanitizer: %r" % (got.san[:2],), teal=c.teal[-2500:])
            bad = True
    if bad and unpaired:
        # counterfactual for the known optimiser defect: same compilation with deletions restricted to exactly paired store/load
        probe.reset(neutralise=True)
        c2 = rcase.compile_recipe(recipe, v, mode, scratch_slots=ss, frame_pointers=fp)
        probe.reset()
        clean = False
        if c2.prog is not None:
            from .. import cfg
            f2, _ = cfg.abstract_run(c2.prog)
            if has_any:
                f2 = [f for f in f2 if f.kind != "type"]
            clean = not f2
            for cd in ctxs:
                g2 = rcase.run_avm(c2.prog, cd, routine_info=info)
                if g2.dropped:
                    continue
                k2 = g2.res.error_kind if g2.res is not None else ""
                if (g2.status == "fail" and k2 in ("type", "stack", "frame") and not has_any) or (g2.san and g2.status != "fail"):
                    clean = False
        if clean:
            for vio in acc.violations[nviol:]:
                vio["case"] = dict(vio["case"], mechanism=KNOWN_OPT)


def classify(v):
    case = v.get("case") or {}
    if case.get("mechanism") == KNOWN_OPT and case.get("optimizer_unpaired"):
        return KNOWN_OPT
    return None


MANIFEST_ENTRY = {
    "technique": "runtime sanitizer: forced-branch execution of every emitted routine on shadow values (heights and type tags) plus concrete executions under the AVM's type/stack/height/frame sanitizers",
    "text": ("Every program emitted for a broad workload (constructor catalogue at every version and mode, recipes under random options, "
             "label hazards, ABI programs, routers) is driven over all of its CFG edges by the reference interpreter in forced-branch mode "
             "with shadow values: equal relative height on every path to each instruction, no pop below what the routine owns, declared "
             "result count at every retsub, frame accesses inside the frame, exactly one value at the main routine's return, no opcode on a "
             "definitely wrong type. Recipes are additionally executed on concrete inputs under the sanitizers: no type/stack failure "
             "without anytype expressions. Held = held on the programs listed. Rejection duties are probed too: values in statement positions, wrongly typed writes into scratch- and frame-backed ABI values, conditionals with arms of different types, every catalogue constructor with one literal operand of the other type - each must be refused or stay type- and height-safe. The programs the repository's own tests compile are judged as well."),
    "note": "Trusted: vlib/langspec.py stack signatures, vlib/cfg.py, vlib/avm.py. Known finding shared with C03 (optimiser deletes unpaired stores) is attributed by probe + counterfactual.",
}
