"""C07 - ABI decoding and element access return the encoded components.

Monitor: a program that decodes a reference-encoded value (algosdk) and walks an access path - tuple[i], named
tuple field, array[i] with constant or run-time index, get(), length() - is compiled by the real compiler and
executed on the reference AVM; what it logs is compared with algosdk's encoding of that component.  Array
indices outside the bounds must make the program fail (or be rejected when the expression is built).
"""
from .. import abigen, avm

SPEC = {
    "level": "exploration",
    "rule": ("random and enumerated type shapes x boundary-biased values x a random access path through the value (every "
             "element position reachable; constant and run-time indices; decode with start/end/length windows inside a "
             "larger buffer) x scalar getters x versions 6..10 x main/subroutine storage; out-of-range probes: index in "
             "{len, len+1, len+7, 255, 2^16, 2^63} on arrays whose payload is chosen so that stale offsets look valid. "
             "A case is non-trivial when the path has >= 1 step or is an out-of-range probe; distinct = distinct "
             "(type, value, path, version, back-end)."),
    "assumptions": ["algosdk.abi is the ARC-4 reference codec", "reference AVM (vlib/avm.py) semantics, calibrated by setup gates"],
    "min_evaluations": {"quick": 3000, "thorough": 40000},
    "must_reach": ["access_ok", "oob_failed_or_rejected", "getter_ok", "length_ok", "windowed_decode"],
    "shard_timeout": {"quick": 2400, "thorough": 14400},
}


def plan(tier, seed):
    n = 16 if tier == "quick" else 64
    per = 1500 if tier == "quick" else 6000
    return [{"seed": seed, "shard": i, "nshards": n, "n": per, "tier": tier} for i in range(n)]


def classify(v):
    if v.get("kind") == "oob_read_returns_data":
        ek = v.get("elem_kind")
        if ek == "bool":
            return "C07-oob-bool"
        if ek == "dynamic":
            return "C07-oob-dynamic"
    return None


def _is_arr(st):
    from algosdk import abi as sabi
    return isinstance(st, (sabi.ArrayStaticType, sabi.ArrayDynamicType)) and not isinstance(st, (sabi.AddressType, sabi.StringType))


def access_paths(st, val, rng):
    """yield (steps, component sdk type, component value); one random child per level."""
    from algosdk import abi as sabi
    yield [], st, val
    if isinstance(st, sabi.TupleType) and st.child_types:
        i = rng.randrange(len(st.child_types))
        for p, t, v in access_paths(st.child_types[i], val[i], rng):
            yield [["tup", i, rng.random() < .3]] + p, t, v
    if _is_arr(st) and len(val):
        i = rng.choice([0, len(val) - 1, rng.randrange(len(val))])
        for p, t, v in access_paths(st.child_type, val[i], rng):
            yield [["arr", i, rng.random() < .5]] + p, t, v


def build_body(pt, ts, case, log_mode):
    """Exprs decoding arg0 as ts, walking case['path'], logging the component."""
    abi = pt.abi
    path = case["path"]
    root = ts.new_instance()
    named = case.get("named") and isinstance(ts, abi.TupleTypeSpec) and len(ts.value_type_specs()) > 0
    if named:
        def field_annotation(s):
            # named_nested: tuple members become NamedTuple classes of their own, reached only through the outer class's
            # annotations; every case calls them "Inner", with whatever fields that case has
            if case.get("named_nested") and type(s) is abi.TupleTypeSpec and len(s.value_type_specs()) > 0:
                inner = {"g%d" % j: abi.Field[field_annotation(x)] for j, x in enumerate(s.value_type_specs())}
                return type("Inner", (abi.NamedTuple,), {"__annotations__": inner})
            return s.annotation_type()
        try:
            ann = {"f%d" % i: abi.Field[field_annotation(s)] for i, s in enumerate(ts.value_type_specs())}
        except TypeError:  # annotation_type() has no spelling for tuples longer than Tuple5
            named = False
        else:
            NT = type("NT", (abi.NamedTuple,), {"__annotations__": ann})
            root = NT()
            # a second NamedTuple class with the same field names at other positions, instantiated after the one under test:
            # field lookup is per class, so this must not matter
            n = len(ann)
            decoy_ann = {"f%d" % ((i + 1) % n if n > 1 else 0): abi.Field[abi.Uint64] for i in range(n)}
            decoy_ann = dict(sorted(decoy_ann.items(), key=lambda kv: -int(kv[0][1:])))
            Decoy = type("Decoy", (abi.NamedTuple,), {"__annotations__": decoy_ann})
            Decoy()
    win = case.get("window")
    if win:
        pre, total = win["pre"], win["len"]
        if win["how"] == "end":
            steps = [root.decode(pt.Txn.application_args[0], start_index=pt.Int(pre), end_index=pt.Int(pre + total))]
        elif win["how"] == "length":
            steps = [root.decode(pt.Txn.application_args[0], start_index=pt.Int(pre), length=pt.Int(total))]
        else:
            steps = [root.decode(pt.Suffix(pt.Txn.application_args[0], pt.Int(pre)), length=pt.Int(total))] \
                if win["how"] == "lenonly" else [root.decode(pt.Txn.application_args[0], start_index=pt.Int(pre))]
    else:
        steps = [root.decode(pt.Txn.application_args[0])]
    if case.get("redecode"):
        # the instance is first decoded from other bytes (the last application argument) and read, then decoded from the value
        # under test: whatever it held before must not matter
        k0 = sum(1 for p in path if p[0] == "arr" and not p[2]) + 1
        pre = [root.decode(pt.Txn.application_args[k0]), pt.Pop(pt.Len(root.encode()))]
        steps = pre + steps
    cur = root
    n_rt = 0
    for k, p in enumerate(path):
        if p[0] == "tup":
            nxt = cur.type_spec().value_type_specs()[p[1]].new_instance()
            if k == 0 and named and p[2]:
                steps.append(getattr(cur, "f%d" % p[1]).store_into(nxt))
            else:
                steps.append(cur[p[1]].store_into(nxt))
        else:
            nxt = cur.type_spec().value_type_spec().new_instance()
            if p[2]:
                idx = p[1]
            else:
                n_rt += 1
                idx = pt.Btoi(pt.Txn.application_args[n_rt])
            steps.append(cur[idx].store_into(nxt))
        cur = nxt
    if log_mode == "encode":
        steps.append(pt.Log(cur.encode()))
    elif log_mode == "get_int":
        steps.append(pt.Log(pt.Itob(cur.get())))
    elif log_mode == "get_bytes":
        steps.append(pt.Log(cur.get()))
    elif log_mode == "length":
        steps.append(pt.Log(pt.Itob(cur.length())))
    elif log_mode == "use":
        # element access through ComputedValue.use on the last step is covered by store_into; here: encode via use
        steps.append(pt.Log(cur.encode()))
    return pt.Seq(*steps)


def check_case(pt, acc, case):
    from algosdk import abi as sabi
    from ..common import PT_ERRORS, h, reset_globals
    from .c06 import _val_from_json
    reset_globals()
    acc.evaluations += 1
    tstr, version = case["type"], case["version"]
    st = abigen.sdk(tstr)
    ts = abigen.spec_of(pt, st, case.get("how", 0))
    val = _val_from_json(st, case["value"])
    enc = st.encode(val)
    # expected component
    ct, cv = st, val
    oob = case.get("oob")
    for p in case["path"]:
        if p[0] == "tup":
            ct, cv = ct.child_types[p[1]], cv[p[1]]
        else:
            if oob and p is case["path"][-1]:
                ct = ct.child_type
                cv = None
            else:
                ct, cv = ct.child_type, cv[p[1]]
    mode = case["log_mode"]
    try:
        if case["backend"] == "main":
            prog = pt.Seq(build_body(pt, ts, case, mode), pt.Int(1))
        else:
            @pt.Subroutine(pt.TealType.none)
            def sub():
                return build_body(pt, ts, case, mode)
            prog = pt.Seq(sub(), pt.Int(1))
        opts = pt.OptimizeOptions(frame_pointers=False) if case["backend"] == "sub_scratch" else None
        teal = pt.compileTeal(prog, pt.Mode.Application, version=version, optimize=opts)
    except PT_ERRORS as e:
        if oob and case["path"][-1][2]:
            acc.counters["oob_failed_or_rejected"] += 1
            acc.counters["oob_rejected_at_build"] += 1
            acc.nontrivial.add(h(case))
            return
        if "Too many slots" in str(e):
            acc.counters["dropped_resource_limit_slots"] += 1
            return
        acc.violation("compile_rejected", case, "%s: %s" % (type(e).__name__, str(e)[:300]))
        return
    except Exception as e:
        acc.violation("compile_crash", case, "%s: %s" % (type(e).__name__, str(e)[:300]))
        return
    win = case.get("window")
    arg0 = enc
    if win:
        arg0 = bytes.fromhex(win["pre_hex"]) + enc + bytes.fromhex(win["post_hex"])
        acc.counters["windowed_decode"] += 1
    rt = [p[1] for p in case["path"] if p[0] == "arr" and not p[2]]
    extra = [bytes.fromhex(case["redecode"])] if case.get("redecode") else []
    ctx = avm.Ctx(group=[{"ApplicationArgs": [arg0] + [i.to_bytes(8, "big") for i in rt] + extra}])
    if extra:
        acc.counters["redecoded_instances"] += 1
    try:
        r = avm.run(avm.parse_any(teal), ctx)
    except (avm.Unsupported, avm.Timeout) as e:
        acc.counters["dropped_" + type(e).__name__] += 1
        return
    if case["path"] or oob:
        acc.nontrivial.add(h(case))
    if r.san:
        acc.violation("sanitizer", case, "AVM sanitizer: %r" % (r.san[:2],), teal=teal)
    if oob:
        if r.status == "fail":
            acc.counters["oob_failed_or_rejected"] += 1
            acc.counters["oob_failed_" + oob["elem_kind"]] += 1
        else:
            acc.violation("oob_read_returns_data", case,
                          "%s of length %d indexed at %d (%s index) returned %r instead of failing (v%d)"
                          % (oob["array_type"], oob["length"], case["path"][-1][1],
                             "constant" if case["path"][-1][2] else "run-time", [l.hex() for l in r.logs], version),
                          elem_kind=oob["elem_kind"])
        return
    if mode == "encode" or mode == "use":
        exp = ct.encode(cv)
    elif mode == "get_int":
        exp = int(cv).to_bytes(8, "big")
    elif mode == "get_bytes":
        if isinstance(ct, sabi.StringType):
            exp = cv.encode()
        elif isinstance(ct, sabi.AddressType):
            exp = cv if isinstance(cv, bytes) else bytes(cv)
        else:
            exp = bytes(cv)
    else:
        exp = len(cv.encode() if isinstance(cv, str) else cv).to_bytes(8, "big")
    if r.status != "approve" or r.logs != [exp]:
        acc.violation("component_mismatch", case, "type %s path %r mode %s v%d: status=%s err=%s logged=%s expected=%s"
                      % (tstr, case["path"], mode, version, r.status, r.error, [l.hex() for l in r.logs], exp.hex()), teal=teal)
        return
    acc.counters["access_ok"] += 1
    if mode in ("get_int", "get_bytes"):
        acc.counters["getter_ok"] += 1
    if mode == "length":
        acc.counters["length_ok"] += 1
    for p in case["path"]:
        acc.counters["step_" + p[0] + ("_const" if p[2] else "_rt" if p[0] == "arr" else "_idx")] += 1
    acc.sample({"type": tstr, "path": case["path"], "mode": mode, "version": version, "expected_hex": exp.hex()[:80]})


def gen_case(rng, shapes, i):
    from algosdk import abi as sabi
    from .c06 import _nodes, _val_to_json
    boundary = False
    if shapes and i < len(shapes):
        tstr = shapes[i]
    elif rng.random() < .2:
        tstr = abigen.boundary_shape(rng)
        boundary = True
    else:
        tstr = abigen.rand_type(rng, maxdepth=rng.choice([1, 2, 3, 3, 4]))
    st = abigen.sdk(tstr)
    for _ in range(20):
        val = abigen.rand_val(rng, st)
        if _nodes(val) <= (800 if boundary else 150):
            break
    else:
        tstr = "(uint64,bool[3],string[])"
        st = abigen.sdk(tstr)
        val = abigen.rand_val(rng, st)
    paths = list(access_paths(st, val, rng))
    path, ct, cv = rng.choice(paths)
    # at most two run-time indices
    nrt = 0
    for p in path:
        if p[0] == "arr" and not p[2]:
            nrt += 1
            if nrt > 2:
                p[2] = True
    mode = "encode"
    r = rng.random()
    if isinstance(ct, (sabi.UintType, sabi.ByteType, sabi.BoolType)) and r < .5:
        mode = "get_int"
    elif isinstance(ct, (sabi.StringType, sabi.AddressType)) and r < .5:
        mode = "get_bytes"
    elif _is_arr(ct) and r < .6:
        mode = "length"
    elif isinstance(ct, sabi.StringType) and r < .7:
        mode = "length"
    backend = rng.choice(["main", "sub", "sub_scratch"])
    case = {"type": tstr, "value": _val_to_json(val), "path": path, "log_mode": mode, "version": rng.choice([6, 7, 8, 9, 10]),
            "backend": backend, "how": rng.randrange(2), "named": rng.random() < .3, "named_nested": rng.random() < .5}
    if rng.random() < .2:
        other = abigen.rand_val(rng, st)
        if _nodes(other) <= 200:
            case["redecode"] = st.encode(other).hex()
    if rng.random() < .3:
        pre = bytes(rng.randrange(256) for _ in range(rng.choice([1, 2, 5, 8])))
        post = bytes(rng.randrange(256) for _ in range(rng.choice([0, 0, 1, 3])))
        how = rng.choice(["end", "length", "lenonly"] + (["startonly"] if not post else []))
        case["window"] = {"pre": len(pre), "len": len(st.encode(val)), "pre_hex": pre.hex(), "post_hex": post.hex(), "how": how}
    return case


STALE = ["\x00\x06", "\x00\x04", "\x00\x02", "\x00\x08", "\x00\x02\x00\x04", "\x00\x00", "\x00\x04\x00\x06", "ab", ""]


def gen_oob(rng):
    """Out-of-range probe on an array (top level or as a tuple member)."""
    from algosdk import abi as sabi
    from .c06 import _val_to_json
    elem = rng.choice(["bool", "bool", "string", "string", "uint64", "uint8", "byte", "uint16", "address", "(uint8,bool)", "uint8[]",
                       "(uint16,string)", "uint32[2]", "bool[3]", "uint32"])
    est = abigen.sdk(elem)
    n = rng.choice([0, 1, 2, 3, 7, 8, 9])
    static = rng.random() < .5
    atype = elem + ("[%d]" % n if static else "[]")
    ast = abigen.sdk(atype)

    def ev():
        if elem == "string":
            return rng.choice(STALE)
        if elem == "uint8[]":
            return [rng.choice([0, 2, 4, 6]) for _ in range(rng.choice([0, 2, 4]))]
        if elem == "(uint16,string)":
            return [rng.choice([0, 2, 4, 6]), rng.choice(STALE)]
        return abigen.rand_val(rng, est)
    aval = [ev() for _ in range(n)]
    wrap = rng.random() < .3
    if wrap:
        tstr = "(uint16,%s,uint8)" % atype
        val = [rng.randrange(65536), aval, rng.randrange(256)]
        path = [["tup", 1, False]]
    else:
        tstr, val, path = atype, aval, []
    idx = rng.choice([n, n, n + 1, n + 7, 8 * ((n + 7) // 8), 255, 2**16, 2**16 + n, 2**63, 2**64 - 1])
    const = rng.random() < .4 and idx < 2**63
    path.append(["arr", idx, const])
    ek = "bool" if elem == "bool" else ("dynamic" if est.is_dynamic() else "static_nonbool")
    return {"type": tstr, "value": _val_to_json(val), "path": path, "log_mode": "encode", "version": rng.choice([6, 7, 8, 9, 10]),
            "backend": rng.choice(["main", "sub"]), "how": 0, "named": False,
            "oob": {"elem_kind": ek, "array_type": atype, "length": n}}


def known_probes(pt, acc):
    from .c06 import _val_to_json
    base = {"log_mode": "encode", "version": 8, "backend": "main", "how": 0, "named": False}
    probes = [
        ("C07-oob-bool", dict(base, type="bool[3]", value=[True, True, True], path=[["arr", 3, False]],
                              oob={"elem_kind": "bool", "array_type": "bool[3]", "length": 3})),
        ("C07-oob-dynamic", dict(base, type="string[]", value=["\x00\x06"], path=[["arr", 1, False]],
                                 oob={"elem_kind": "dynamic", "array_type": "string[]", "length": 1})),
    ]
    for fid, case in probes:
        a2 = type(acc)()
        check_case(pt, a2, case)
        if any(v["kind"] == "oob_read_returns_data" for v in a2.violations):
            acc.known[fid] += 1


def run_shard(shard):
    import pyteal as pt
    from ..common import Acc, rng_for
    acc = Acc()
    if "replay" in shard:
        check_case(pt, acc, shard["replay"])
        return acc.result()
    rng = rng_for(shard["seed"], "c07", shard["shard"])
    if shard["shard"] == 0:
        known_probes(pt, acc)
    maxn = 3 if shard["tier"] == "quick" else 4
    allshapes = [s for s in abigen.small_shapes(maxn) if s.count("(") + s.count("[")]
    mine = allshapes[shard["shard"]::shard["nshards"]]
    if shard["tier"] == "quick":
        mine = mine[shard["seed"] % 2::2]
    acc.counters["enumerated_shapes_run"] = len(mine)
    total = max(shard["n"], len(mine))
    for i in range(total):
        if i % 4 == 0:
            check_case(pt, acc, gen_oob(rng))
        check_case(pt, acc, gen_case(rng, mine, i))
    return acc.result()


MANIFEST_ENTRY = {
    "technique": "runtime differential: compiled decode/element-access programs executed on a sanitizing reference AVM vs components re-encoded by algosdk; out-of-range index probes",
    "text": ("For enumerated and random type shapes, a reference-encoded value (optionally embedded in a larger buffer and decoded "
             "through start/end/length windows) is decoded by the compiled program, an access path is walked with constant and "
             "run-time indices, and the logged component is compared with algosdk's encoding of that component; scalar getters "
             "and length() are compared as values. Out-of-range array indices must fail or be rejected; payloads are chosen so "
             "that stale offsets look valid. Held = held on the executions listed; two known findings are attributed by input class."),
    "note": "Trusted: algosdk.abi as ARC-4 reference; vlib/avm.py + prims.py (calibrated on the 92 golden round-trip programs).",
}
