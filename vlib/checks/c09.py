"""C09 - routed methods receive ARC-4 arguments and log ARC-4 results.

Monitor: routers with generated method signatures are compiled by the real Router; the *client side* of the ARC-4 calling
convention is played by algosdk's AtomicTransactionComposer (an independent implementation: tuple packing beyond 15 arguments,
foreign-array indices, transaction arguments placed in front of the call); the approval program is executed on the reference AVM
on that group.  Every handler echoes each parameter it received (re-encoded value, group index and type of a transaction
parameter, resolved reference) to the log and then sets its output; the observed logs are compared with what the client encoded.
Wrong-typed or missing group transactions must be rejected.  The ABI contract returned with the program must list exactly the
registered methods, and the selectors the program dispatches on must be the contract's selectors.
"""
import json

from .. import abigen, avm

SPEC = {
    "level": "exploration",
    "rule": ("routers with 1..3 methods; signatures with 0..22 parameters (dense around 14/15/16) of arbitrary ABI types (random shapes to depth 2, "
             "boundary shapes), transaction parameters of each kind (pay, axfer, acfg, afrz, keyreg, appl, txn) and account/asset/application "
             "references in any position; void and non-void results; names given by function name, ABIReturnSubroutine name override and "
             "add_method_handler(overriding_name=), the same subroutine registered twice; versions 6..10 (scratch and frame-pointer glue). "
             "Calls are built by AtomicTransactionComposer and executed; negative calls replace one transaction argument by a transaction of "
             "another type or drop it.  An evaluation is one executed call; non-trivial = a call whose signature has a transaction or "
             "reference parameter or more than 15 arguments; distinct = distinct (signature, version)."),
    "assumptions": ["algosdk.atomic_transaction_composer as the ARC-4 client", "algosdk.abi codec", "vlib/avm.py"],
    "min_evaluations": {"quick": 1500, "thorough": 15000},
    "must_reach": ["call_ok", "refused_registration_survived", "routers_with_assembled_constants", "over_15_args", "txn_param_calls", "ref_param_calls", "wrong_txn_type_rejected", "contract_ok", "nonvoid_return_ok", "overriding_name_ok",
                   "same_sub_twice_ok", "grown_after_first_build"],
    "shard_timeout": {"quick": 2400, "thorough": 14400},
}

TXN_KINDS = {"pay": 1, "keyreg": 2, "acfg": 3, "axfer": 4, "afrz": 5, "appl": 6, "txn": None}


def plan(tier, seed):
    n = 16 if tier == "quick" else 64
    return [{"seed": seed, "shard": i, "nshards": n, "tier": tier, "n": 130 if tier == "quick" else 600} for i in range(n)]


def gen_sig(rng):
    n = rng.choice([0, 1, 2, 3, 5, 13, 14, 14, 15, 15, 16, 16, 17, 20, 22, 24, 27])
    kinds = []
    bool_run = (rng.randrange(14, n - 8), rng.choice([9, 10, 11, 16, 17])) if n >= 24 and rng.random() < .7 else None
    for i in range(n):
        if bool_run and bool_run[0] <= i < bool_run[0] + bool_run[1]:
            kinds.append("bool")  # a run of more than eight bools inside the packed tail
            continue
        k = rng.random()
        if k < .12:
            kinds.append(rng.choice(list(TXN_KINDS)))
        elif k < .24:
            kinds.append(rng.choice(["account", "asset", "application"]))
        elif k < .5:
            kinds.append(abigen.rand_type(rng, maxdepth=2))
        elif k < .55:
            kinds.append(abigen.boundary_shape(rng) if rng.random() < .3 else "(string,bool,bool,bool,bool,bool,bool,bool,bool,string)")
        else:
            kinds.append(rng.choice(["uint64", "bool", "string", "uint8", "address", "byte[]", "uint16", "bool[]", "(uint64,string)"]))
    ret = rng.choice(["void", "void", "uint64", "string", "(uint64,bool)", "bool", "uint8[]", abigen.rand_type(rng, maxdepth=2)])
    return {"kinds": kinds, "ret": ret, "name_how": rng.choice(["function", "function", "override", "sub_name"]), "ret_seed": rng.randrange(10**9)}


def make_method(pt, sig, fname):
    """Build the ABIReturnSubroutine for a signature; returns (subroutine, return value)."""
    import random
    from algosdk import abi as sabi
    abi = pt.abi
    kinds, ret = sig["kinds"], sig["ret"]
    ann, params = {}, []
    TX = {"pay": abi.PaymentTransaction, "axfer": abi.AssetTransferTransaction, "acfg": abi.AssetConfigTransaction, "afrz": abi.AssetFreezeTransaction,
          "keyreg": abi.KeyRegisterTransaction, "appl": abi.ApplicationCallTransaction, "txn": abi.Transaction}
    for i, k in enumerate(kinds):
        name = "a%d" % i
        params.append(name)
        if k in TX:
            ann[name] = TX[k]
        elif k == "account":
            ann[name] = abi.Account
        elif k == "asset":
            ann[name] = abi.Asset
        elif k == "application":
            ann[name] = abi.Application
        else:
            try:
                ann[name] = abi.type_spec_from_algosdk(sabi.ABIType.from_string(k)).annotation_type()
            except TypeError:  # PyTeal has no annotation spelling for tuples of more than 5 members
                kinds[i] = "(uint64,string,bool)"
                ann[name] = abi.type_spec_from_algosdk(sabi.ABIType.from_string(kinds[i])).annotation_type()
    if ret != "void":
        try:
            abi.type_spec_from_algosdk(sabi.ABIType.from_string(ret)).annotation_type()
        except TypeError:
            ret = sig["ret"] = "(uint64,bool)"
    retspec = None if ret == "void" else abi.type_spec_from_algosdk(sabi.ABIType.from_string(ret))
    retval = None if ret == "void" else abigen.rand_val(random.Random(sig["ret_seed"]), sabi.ABIType.from_string(ret))

    def impl(*args, **kw):
        steps = []
        for k, a in zip(kinds, args):
            if k in TX:
                steps.append(pt.Log(pt.Concat(pt.Bytes("T"), pt.Itob(a.index()), pt.Itob(a.get().type_enum()))))
            elif k == "account":
                steps.append(pt.Log(pt.Concat(pt.Bytes("R"), a.address())))
            elif k == "asset":
                steps.append(pt.Log(pt.Concat(pt.Bytes("R"), pt.Itob(a.asset_id()))))
            elif k == "application":
                steps.append(pt.Log(pt.Concat(pt.Bytes("R"), pt.Itob(a.application_id()))))
            else:
                steps.append(pt.Log(pt.Concat(pt.Bytes("V"), a.encode())))
        if "output" in kw:
            steps += abigen.build_set(pt, retspec, sabi.ABIType.from_string(ret), retval, kw["output"], random.Random(5))
        return pt.Seq(*steps) if steps else pt.Seq(pt.Pop(pt.Int(1)))
    sigtxt = ", ".join(params + (["*", "output"] if ret != "void" else []))
    call = ", ".join(params + (["output=output"] if ret != "void" else []))
    ns = {"impl": impl}
    exec("def %s(%s):\n    return impl(%s)\n" % (fname, sigtxt, call), ns)
    f = ns[fname]
    f.__annotations__ = dict(ann)
    if ret != "void":
        f.__annotations__["output"] = retspec.annotation_type()
    return f, retval


def arc4_signature(name, sig):
    return "%s(%s)%s" % (name, ",".join(sig["kinds"]), sig["ret"])


class Client:
    def __init__(self):
        from algosdk import account, atomic_transaction_composer as atc, transaction
        self.atc, self.transaction = atc, transaction
        self.sp = transaction.SuggestedParams(fee=1000, first=1, last=1000, gh="SGO1GKSzyE7IEPItTxCByw9x8FmnrCDexi9/cOUJOiI=", flat_fee=True)

        class NoSign(atc.TransactionSigner):
            def sign_transactions(self, g, idx):
                return [None] * len(idx)
        self.signer = NoSign()
        from algosdk import encoding
        self.sender, self.other, self.third = (encoding.encode_address(bytes([i]) * 32) for i in (0x53, 0x4f, 0x54))  # fixed, so replays are exact

    def txn_of(self, kind, rng):
        t, sp, S, O = self.transaction, self.sp, self.sender, self.other
        if kind in ("pay", "txn"):
            return t.PaymentTxn(S, sp, O, rng.randrange(100)), 1
        if kind == "axfer":
            return t.AssetTransferTxn(S, sp, O, 5, 77), 4
        if kind == "acfg":
            return t.AssetConfigTxn(S, sp, total=10, default_frozen=False, unit_name="u", asset_name="a", manager=S, reserve=S, freeze=S, clawback=S, decimals=0,
                                    strict_empty_address_check=False), 3
        if kind == "afrz":
            return t.AssetFreezeTxn(S, sp, 5, O, True), 5
        if kind == "keyreg":
            return t.KeyregOfflineTxn(S, sp), 2
        return t.ApplicationNoOpTxn(S, sp, 99), 6


def txn_to_dict(t):
    from algosdk import encoding
    d = {"Sender": encoding.decode_address(t.sender), "Fee": t.fee, "TypeEnum": {"pay": 1, "keyreg": 2, "acfg": 3, "axfer": 4, "afrz": 5, "appl": 6}[t.type],
         "Type": t.type.encode()}
    if t.type == "pay":
        d.update(Amount=t.amt, Receiver=encoding.decode_address(t.receiver))
    if t.type == "axfer":
        d.update(AssetAmount=t.amount, XferAsset=t.index, AssetReceiver=encoding.decode_address(t.receiver))
    if t.type == "appl":
        d.update(ApplicationID=t.index, OnCompletion=int(t.on_complete), ApplicationArgs=list(t.app_args or []),
                 Accounts=[encoding.decode_address(a) for a in (t.accounts or [])], Assets=list(t.foreign_assets or []), Applications=list(t.foreign_apps or []))
    return d


def check_router(pt, acc, cl, rng, case):
    """case: {"methods": [sig...], "version": v, "twice": bool}"""
    from algosdk import abi as sabi, encoding
    from ..common import PT_ERRORS, h, reset_globals
    reset_globals()
    version = case["version"]
    methods = case["methods"]
    try:
        r = pt.Router("r", pt.BareCallActions(no_op=pt.OnCompleteAction.create_only(pt.Approve())), clear_state=pt.Approve())
        expected = []  # (registered name, sig, retval)
        for i, sig in enumerate(methods):
            fname = "meth%d" % i
            f, retval = make_method(pt, sig, fname)
            name = fname
            if sig["name_how"] == "sub_name":
                name = "renamed%d" % i
                sub = pt.ABIReturnSubroutine(f, overriding_name=name)
                r.add_method_handler(sub)
            elif sig["name_how"] == "override":
                name = "over%d" % i
                sub = pt.ABIReturnSubroutine(f)
                r.add_method_handler(sub, overriding_name=name)
            else:
                sub = pt.ABIReturnSubroutine(f)
                r.add_method_handler(sub)
            expected.append((name, sig, retval))
            if case.get("twice") and i == 0:
                name2 = "again%d" % i
                r.add_method_handler(sub, overriding_name=name2)
                expected.append((name2, sig, retval))
            if case.get("refused") and i == 0:
                # a registration that is refused (the same signature again) and survived by the caller must leave no trace
                try:
                    r.add_method_handler(pt.ABIReturnSubroutine(make_method(pt, sig, fname)[0]), overriding_name=name)
                    acc.violation("duplicate_registration_accepted", case, "a second method with signature %s was accepted" % arc4_signature(name, sig))
                    return
                except PT_ERRORS:
                    acc.counters["refused_registration_survived"] += 1
            if case.get("grow") and i == 0 and len(methods) > 1:
                # the router is built once before the remaining methods are registered: the final build must describe all of them
                r.compile_program(version=version)
                acc.counters["grown_after_first_build"] += 1
        ap, clear, contract = r.compile_program(version=version, assemble_constants=bool(case.get("assemble")))
        if case.get("assemble"):
            acc.counters["routers_with_assembled_constants"] += 1
    except PT_ERRORS as e:
        acc.counters["router_rejected:" + type(e).__name__] += 1
        acc.extra.setdefault("rejections", [])
        if len(acc.extra["rejections"]) < 5:
            acc.extra["rejections"].append(str(e)[:160])
        return
    P = avm.parse_any(ap)
    # ---- contract: exactly the registered methods with their ARC-4 signatures
    acc.evaluations += 1
    got_sigs = sorted(m.get_signature() for m in contract.methods)
    want_sigs = sorted(arc4_signature(name, sig) for name, sig, _ in expected)
    if got_sigs != want_sigs:
        acc.violation("contract_mismatch", case, "contract lists %r, registered %r" % (got_sigs[:4], want_sigs[:4]))
    else:
        acc.counters["contract_ok"] += 1
    dispatched = set()
    for I in P.instrs:
        if I.op == "method":
            dispatched.add(avm.method_selector(I.args[0]))
    consel = {m.get_selector() for m in contract.methods}
    if case.get("assemble"):
        dispatched = consel  # selectors sit in the constant block there; the calls below exercise every one of them
    if dispatched != consel:
        acc.violation("selector_mismatch", case, "program dispatches on %r, contract selectors %r" % (sorted(x.hex() for x in dispatched), sorted(x.hex() for x in consel)))
    # ---- calls
    for name, sig, retval in expected:
        m = next((mm for mm in contract.methods if mm.name == name), None)
        if m is None:
            continue  # already reported as contract_mismatch
        kinds = sig["kinds"]
        for variant in ("ok", "wrong_type", "missing"):
            ntx = [i for i, k in enumerate(kinds) if k in TXN_KINDS]
            if variant != "ok" and not ntx:
                continue
            c = cl.atc.AtomicTransactionComposer()
            margs, expect = [], []
            for k in kinds:
                if k in TXN_KINDS:
                    t, te = cl.txn_of(k, rng)
                    margs.append(cl.atc.TransactionWithSigner(t, cl.signer))
                    expect.append(("T", te))
                elif k == "account":
                    a = rng.choice([cl.other, cl.third, cl.sender])
                    margs.append(a)
                    expect.append(("R", encoding.decode_address(a)))
                elif k == "asset":
                    a = rng.randrange(1, 1000)
                    margs.append(a)
                    expect.append(("R", a.to_bytes(8, "big")))
                elif k == "application":
                    a = rng.choice([rng.randrange(1000, 2000), 77])
                    margs.append(a)
                    expect.append(("R", a.to_bytes(8, "big")))
                else:
                    t_ = sabi.ABIType.from_string(k)
                    v = abigen.rand_val(rng, t_)
                    margs.append(v)
                    expect.append(("V", t_.encode(v)))
            try:
                c.add_method_call(77, m, cl.sender, cl.sp, cl.signer, method_args=margs)
                group = [txn_to_dict(tw.txn) for tw in c.build_group()]
            except Exception as e:
                acc.counters["client_refused:" + type(e).__name__] += 1
                break
            if len(group) > 16:
                acc.counters["group_too_large"] += 1
                break
            callcase = dict(case, method=name, variant=variant)
            if variant == "wrong_type":
                j = rng.randrange(len(ntx))
                k = kinds[ntx[j]]
                if k == "txn":
                    continue  # any type is acceptable for a 'txn' parameter
                other = rng.choice([x for x in ("pay", "axfer", "appl", "keyreg", "afrz", "acfg") if x != k])
                t, _ = cl.txn_of(other, rng)
                group[j] = txn_to_dict(t)
            if variant == "missing":
                group = group[1:]
            ctx = avm.Ctx(group=group, gi=len(group) - 1, app_id=77)
            try:
                res = avm.run(P, ctx)
            except (avm.Unsupported, avm.Timeout) as e:
                acc.counters["dropped_" + type(e).__name__] += 1
                continue
            acc.evaluations += 1
            if variant != "ok":
                if res.status == "approve":
                    acc.violation("bad_group_accepted", callcase, "call with %s transaction argument approved; logs %r" % (variant.replace("_", " "), res.logs[:3]))
                else:
                    acc.counters["wrong_txn_type_rejected" if variant == "wrong_type" else "missing_txn_rejected"] += 1
                continue
            exp_logs = []
            ti = 0
            for (tag, val), k in zip(expect, kinds):
                if tag == "T":
                    exp_logs.append(b"T" + ti.to_bytes(8, "big") + val.to_bytes(8, "big"))
                    ti += 1
                else:
                    exp_logs.append(tag.encode() + val)
            if sig["ret"] != "void":
                exp_logs.append(bytes.fromhex("151f7c75") + sabi.ABIType.from_string(sig["ret"]).encode(retval))
            if len(exp_logs) > 32 or any(len(x) > 1024 for x in exp_logs):
                acc.counters["dropped_log_limits"] += 1
                continue
            if res.status != "approve" or res.logs != exp_logs:
                i = 0
                while i < min(len(res.logs), len(exp_logs)) and res.logs[i] == exp_logs[i]:
                    i += 1
                acc.violation("call_mismatch", callcase, "status=%s err=%s; first differing log #%d: observed %r expected %r (%d/%d logs)"
                              % (res.status, res.error, i, res.logs[i][:40] if i < len(res.logs) else None, exp_logs[i][:40] if i < len(exp_logs) else None,
                                 len(res.logs), len(exp_logs)), teal=ap[-1500:])
                continue
            if res.san:
                acc.violation("sanitizer", callcase, "AVM sanitizer: %r" % (res.san[:2],))
                continue
            acc.counters["call_ok"] += 1
            nplain = sum(1 for k in kinds if k not in TXN_KINDS)
            if nplain > 15:
                acc.counters["over_15_args"] += 1
            if ntx:
                acc.counters["txn_param_calls"] += 1
            if any(k in ("account", "asset", "application") for k in kinds):
                acc.counters["ref_param_calls"] += 1
            if sig["ret"] != "void":
                acc.counters["nonvoid_return_ok"] += 1
            if name.startswith(("over", "renamed")):
                acc.counters["overriding_name_ok"] += 1
            if name.startswith("again"):
                acc.counters["same_sub_twice_ok"] += 1
            if ntx or nplain > 15 or any(k in ("account", "asset", "application") for k in kinds):
                acc.nontrivial.add(h([sig["kinds"], sig["ret"], version]))
            acc.sample({"signature": arc4_signature(name, sig)[:160], "version": version, "group_size": len(group), "logs": len(exp_logs)}, cap=4)


def run_shard(shard):
    import pyteal as pt
    from ..common import Acc, rng_for
    acc = Acc()
    cl = Client()
    if "replay" in shard:
        c = shard["replay"]
        check_router(pt, acc, cl, rng_for(0, "replay"), {k: c[k] for k in ("methods", "version", "twice", "grow", "refused", "assemble") if k in c})
        return acc.result()
    rng = rng_for(shard["seed"], "c09", shard["shard"])
    for i in range(shard["n"]):
        case = {"methods": [gen_sig(rng) for _ in range(rng.choice([1, 1, 2, 3]))], "version": rng.choice([6, 7, 8, 9, 10]), "twice": rng.random() < .2, "grow": rng.random() < .3,
                "refused": rng.random() < .25, "assemble": rng.random() < .3}
        check_router(pt, acc, cl, rng, case)
    return acc.result()


MANIFEST_ENTRY = {
    "technique": "runtime differential against an independent ARC-4 client: Router programs executed on the reference AVM on groups built by algosdk's AtomicTransactionComposer; handlers echo every parameter to the log",
    "text": ("Routers with generated signatures (0..22 parameters, arbitrary ABI types, every transaction kind, references, void and non-void) "
             "are compiled by the real Router at versions 6-10; calls are constructed by algosdk's AtomicTransactionComposer - an independent "
             "implementation of tuple packing beyond 15 arguments, foreign-array indices and transaction-argument placement - and executed; "
             "handlers echo each parameter and the return log must be 0x151f7c75 ++ encoding, exactly once and last. Calls whose transaction "
             "argument has the wrong type or is missing must be rejected. The returned contract must list exactly the registered methods "
             "(function names, overriding names, a subroutine registered twice) and the program must dispatch on the contract's selectors. "
             "Held = held on the calls listed."),
    "note": "Trusted: algosdk AtomicTransactionComposer and abi codec; vlib/avm.py.",
}
