"""C11 - compilation is deterministic and independent of process history.

Monitor: scripted sessions, each in its own fresh interpreter (vlib/c11session.py).  A session performs a history of 0..8
activities - successful and failing compilations, router builds, subroutine bodies that raise, template use, and crash points
injected with sys.monitoring at the k-th function entry inside pyteal - and then compiles a fixed set of probe programs that share
no objects with the history.  Oracle: the probes' TEAL from a fresh process with an empty history under PYTHONHASHSEED=0.  Also
observed: repeated compilation of one object / one Router inside a session, and process globals after every activity.
"""
import json
import os
import subprocess
import tempfile

SPEC = {
    "level": "exploration",
    "rule": ("per shard one probe set (3 recipes x 2 option settings, a mutual-recursion family at v6/v9, a random multi-method router at "
             "v6/7/8/10 compiled 3 times, a 3-method ABI router at v6/8 compiled 3 times, one expression object compiled 3 times at v6/8, a "
             "template program) and N sessions: histories of 0..8 activities from {compile ok, version too low, body raises, ABI body raises, "
             "uninitialised read, type error, router ok, router fails, mutual recursion, templates, many slots, crash point (TealInputError / "
             "TealCompileError / ValueError / KeyError raised at a log-uniform k-th PY_START inside pyteal during a recipe or router "
             "compilation)} x PYTHONHASHSEED in {0,1,2,7,random} x source-map gate on/off.  An evaluation is one probe digest compared with "
             "the reference session's; non-trivial = sessions whose history contains at least one failing activity or fired crash point."),
    "assumptions": ["a fresh interpreter with an empty history and PYTHONHASHSEED=0 defines 'the' TEAL of a probe"],
    "min_evaluations": {"quick": 1500, "thorough": 15000},
    "must_reach": ["probe_equal", "sessions_with_failure", "crashpoints_fired", "hashseed_nonzero_sessions", "repeat_compile_equal", "router_repeat_equal"],
    "shard_timeout": {"quick": 2400, "thorough": 14400},
}

KINDS = ["compile_ok", "compile_version_too_low", "body_raises", "abi_body_raises", "uninit", "type_error", "router_ok", "router_fails", "mutual",
         "templates", "assembled_literals", "assembled_literals", "many_slots", "crashpoint", "crashpoint", "crashpoint"]


def plan(tier, seed):
    n = 16 if tier == "quick" else 64
    return [{"seed": seed, "shard": i, "nshards": n, "tier": tier, "sessions": 9 if tier == "quick" else 40} for i in range(n)]


def run_session(spec, hashseed, timeout=300):
    from .. import pool
    d = tempfile.mkdtemp(prefix="c11-", dir=os.environ.get("VERIF_TMP", "/var/tmp"))
    try:
        sp, op = os.path.join(d, "spec.json"), os.path.join(d, "out.json")
        json.dump(spec, open(sp, "w"))
        env = pool.worker_env({"PYTHONHASHSEED": str(hashseed)})
        try:
            cp = subprocess.run([pool.PY, "-m", "vlib.c11session", sp, op], cwd=pool.VERIF, env=env, timeout=timeout, stdout=subprocess.PIPE, stderr=subprocess.PIPE, text=True)
        except subprocess.TimeoutExpired:
            return None, "timeout"
        if cp.returncode != 0 or not os.path.exists(op):
            return None, "session exit %d: %s" % (cp.returncode, (cp.stderr or "")[-400:])
        return json.load(open(op)), None
    finally:
        import shutil
        shutil.rmtree(d, ignore_errors=True)


def gen_history(rng):
    n = rng.choice([0, 1, 1, 2, 3, 4, 6, 8])
    hist = []
    for _ in range(n):
        k = rng.choice(KINDS)
        a = {"kind": k, "seed": rng.randrange(10**9)}
        if k == "crashpoint":
            a["k"] = int(10 ** rng.uniform(0, 5.2))
            a["exc"] = rng.choice(["input", "compile", "value", "key"])
            a["target"] = rng.choice(["recipe", "recipe", "router"])
        hist.append(a)
    return hist


def compare(acc, ref, out, spec, hashseed):
    from ..common import h
    case = {"spec": spec, "hashseed": hashseed}
    failing = [x for x in out["history"] if x.startswith("raised") or "fired=True" in x]
    if failing:
        acc.counters["sessions_with_failure"] += 1
        acc.nontrivial.add(h(spec))
    acc.counters["crashpoints_fired"] += sum(1 for x in out["history"] if "fired=True" in x)
    if hashseed != 0:
        acc.counters["hashseed_nonzero_sessions"] += 1
    for i, st in enumerate(out["state"] + [out["final_state"]]):
        if not (st["current_proto_is_none"] and st["checkExprEquality"] and st["checkScratchSlotEquality"]):
            acc.violation("global_not_restored", dict(case, after_activity=i), "process globals after activity %d (%s): %r"
                          % (i, (spec["history"] + [{"kind": "probes"}])[min(i, len(spec["history"]))]["kind"], st))
            break
    for name, refv in ref["probes"].items():
        got = out["probes"].get(name)
        acc.evaluations += 1
        if isinstance(got, list):
            if len(set(got)) != 1:
                acc.violation("repeat_compile_differs", dict(case, probe=name), "compiling the same %s object repeatedly in one session gave %d different results: %r"
                              % ("router" if "router" in name else "expression", len(set(got)), got))
                continue
            acc.counters["router_repeat_equal" if "router" in name else "repeat_compile_equal"] += 1
        if got != refv:
            acc.violation("history_or_seed_changes_teal", dict(case, probe=name), "probe %s: fresh process gives %r, this session (history %r, PYTHONHASHSEED=%s) gives %r"
                          % (name, str(refv)[:70], [a["kind"] for a in spec["history"]], hashseed, str(got)[:160]))
        else:
            acc.counters["probe_equal"] += 1


def run_shard(shard):
    from ..common import Acc, rng_for
    acc = Acc()
    if "replay" in shard:
        c = shard["replay"]
        spec = c["spec"]
        ref, err = run_session({"probe_seed": spec["probe_seed"], "history": [], "gate": bool(spec.get("gate"))}, 0)
        out, err2 = run_session(spec, c.get("hashseed", 0))
        if ref is None or out is None:
            raise RuntimeError("replay session failed: %s %s" % (err, err2))
        compare(acc, ref, out, spec, c.get("hashseed", 0))
        return acc.result()
    rng = rng_for(shard["seed"], "c11", shard["shard"])
    probe_seed = shard["seed"] * 1000 + shard["shard"]
    refs = {}
    for gate in (False, True):
        # the source-map feature gate is process configuration, not history: each session is compared with the fresh process
        # that has the same gate setting (C15 owns 'the gate does not change the program')
        ref, err = run_session({"probe_seed": probe_seed, "history": [], "gate": gate}, 0)
        if ref is None:
            raise RuntimeError("reference session failed: " + str(err))
        refs[gate] = ref
        compare(acc, ref, ref, {"probe_seed": probe_seed, "history": [], "gate": gate}, 0)
    ref = refs[False]
    bad = [k for k, v in ref["probes"].items() if isinstance(v, str) and v.startswith("EXC:")]
    acc.counters["reference_probes"] = len(ref["probes"])
    acc.counters["reference_probe_errors"] = len(bad)
    for s in range(shard["sessions"]):
        spec = {"probe_seed": probe_seed, "history": gen_history(rng), "gate": rng.random() < .25}
        hs = rng.choice([0, 1, 2, 7, rng.randrange(1, 2**31)])
        out, err = run_session(spec, hs)
        if out is None:
            acc.counters["session_failed"] += 1
            acc.extra.setdefault("session_errors", []).append(str(err)[:200])
            continue
        acc.counters["sessions"] += 1
        compare(acc, refs[bool(spec.get("gate"))], out, spec, hs)
        for a, res in zip(spec["history"], out["history"]):
            acc.counters["activity_" + a["kind"] + ("_raised" if res.startswith("raised") or "raised" in res else "_ok")] += 1
        if len(acc.samples) < 3:
            acc.sample({"history": [a["kind"] for a in spec["history"]], "outcomes": out["history"][:6], "hashseed": hs, "probes": len(out["probes"])})
    return acc.result()


MANIFEST_ENTRY = {
    "technique": "runtime monitoring of process histories: scripted sessions in fresh interpreters (histories with failing compilations and sys.monitoring crash points, varied hash seeds) compared probe-by-probe with a fresh-process reference; process globals observed after every activity",
    "text": ("Hundreds of sessions per run, each in its own interpreter, perform a random history (successful and failing compilations, "
             "router builds, raising subroutine bodies, crash points injected at the k-th function entry inside pyteal with four exception "
             "types) under varied PYTHONHASHSEED and feature-gate settings, then compile probe programs that share nothing with the history; "
             "every probe's TEAL must be byte-identical to the TEAL from a fresh process with an empty history, repeated compilation of one "
             "expression or one Router must give one result, and the process globals must be restored after every activity. "
             "Held = held on the sessions listed. Probes include programs built before the history and compiled after it, one object compiled at several versions in turn, names without letters or digits, and literal kinds under assembleConstants next to same-text literals of another kind in the history."),
    "note": "Trusted: nothing beyond CPython; the reference is the compiler itself in a fresh process.",
}
