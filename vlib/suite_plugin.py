"""pytest plugin: record every program the repository's own tests get out of the real compiler.

Loaded with `-p vlib.suite_plugin` (PYTHONPATH = <repo>:<verif>).  It adds no frame to any call stack and patches nothing: a
sys.monitoring PY_RETURN *local* event on the code object of pyteal.compiler.compiler.Compilation._compile_impl hands the callback
the returned bundle (mode, version, assemble_constants, optimize, teal), which is appended as one JSON line to
$VERIF_SUITE_LOG.<pid> together with the id of the test that was running.  The judges (C04 legality, C05 stack discipline) run
offline over that log (vlib/checks/c04.py, c05.py, family "suite").
"""
import json
import os
import sys

_state = {"test": None, "f": None, "n": 0}
TOOL = 4  # a free sys.monitoring tool id (0..5; 0-2 are reserved for debugger/coverage/profiler)


def _on_return(code, offset, retval):
    try:
        teal = getattr(retval, "teal", None)
        if not isinstance(teal, str):
            return
        opt = getattr(retval, "optimize", None)
        rec = {"test": _state["test"], "mode": getattr(getattr(retval, "mode", None), "name", None), "version": getattr(retval, "version", None),
               "assemble_constants": bool(getattr(retval, "assemble_constants", False)),
               "optimize": None if opt is None else [getattr(opt, "_scratch_slots", None), getattr(opt, "_frame_pointers", None)],
               "with_sourcemap": getattr(retval, "sourcemapper", None) is not None, "teal": teal}
        _state["f"].write(json.dumps(rec) + "\n")
        _state["f"].flush()
        _state["n"] += 1
    except Exception:  # the recorder must never disturb the observed run
        pass


def _arm():
    """Hook the compiler once the test session itself has imported it (importing pyteal from here would run its module-level
    constructors before the session's own conftest/fixtures have set the source-map feature gate, which changes what they record)."""
    path = os.environ.get("VERIF_SUITE_LOG")
    C = sys.modules.get("pyteal.compiler.compiler")
    if not path or _state["f"] is not None or C is None:
        return
    mon = sys.monitoring
    mon.use_tool_id(TOOL, "verif-suite-recorder")
    mon.register_callback(TOOL, mon.events.PY_RETURN, _on_return)
    mon.set_local_events(TOOL, C.Compilation._compile_impl.__code__, mon.events.PY_RETURN)
    _state["f"] = open("%s.%d" % (path, os.getpid()), "a")


def pytest_collection_finish(session):
    _arm()


def pytest_runtest_setup(item):
    _arm()
    _state["test"] = item.nodeid


def pytest_unconfigure(config):
    if _state["f"]:
        _state["f"].close()
        _state["f"] = None
        try:
            sys.monitoring.free_tool_id(TOOL)
        except Exception:
            pass
