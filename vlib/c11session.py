"""One C11 session, run in its own fresh interpreter:  python -m vlib.c11session <spec.json> <out.json>

spec: {"probe_seed": int, "history": [activity...], "repeat": int, "gate": bool}
An activity is {"kind": ..., "seed": int, ...}; the session performs the history (successful and failing compilations, router
builds, crash-point injections), then compiles the probe programs (a deterministic function of probe_seed only) and writes
their TEAL digests plus a log of process-global state observed after every activity.
"""
import hashlib
import json
import random
import sys
import traceback


def sha(s):
    return hashlib.sha256(s.encode()).hexdigest()[:20]


def globals_snapshot(pt):
    from pyteal.ast.subroutine import SubroutineEval
    from pyteal.ir.tealcomponent import TealComponent
    return {"current_proto_is_none": SubroutineEval._current_proto is None,
            "checkExprEquality": TealComponent.Context.checkExprEquality,
            "checkScratchSlotEquality": TealComponent.Context.checkScratchSlotEquality}


def rep(fn, n=3):
    """n results of fn(); a failing call contributes its exception instead of aborting the probe, so that 'the second compilation
    of the same object fails' shows up as a difference between repetitions."""
    out = []
    for _ in range(n):
        try:
            out.append(sha(fn()))
        except BaseException as e:
            out.append("EXC:" + type(e).__name__)
    return out


def deferred_programs(pt, seed):
    """Programs that are *built* before the history runs and compiled after it: name -> thunk.  What unrelated programs do between
    a program's construction and its compilation must not matter (registries keyed by template name, subroutine id, slot id...)."""
    from vlib import build, recipes
    from vlib.checks import c08
    rng = random.Random("deferred/%d" % seed)
    out = []
    tm = pt.Seq(pt.Pop(pt.Tmpl.Addr("TMPL_K")), pt.Pop(pt.Tmpl.Bytes("TMPL_N")), pt.Pop(pt.Tmpl.Bytes("TMPL_Z")), pt.Tmpl.Int("TMPL_Q"))
    out.append(("deferred_templates", lambda: rep(lambda: pt.compileTeal(tm, pt.Mode.Signature, version=6))))
    out.append(("deferred_templates_assembled", lambda: rep(lambda: pt.compileTeal(tm, pt.Mode.Signature, version=6, assembleConstants=True))))
    x = pt.abi.Uint64()
    sv = pt.ScratchVar(pt.TealType.uint64, 9)

    @pt.Subroutine(pt.TealType.uint64)
    def helper(a):
        return pt.Seq(pt.Assert(a > pt.Int(0), comment="positive"), a * pt.Int(3))
    prog = pt.Seq(x.set(4), sv.store(helper(x.get())), pt.Assert(sv.load() < pt.Int(100), pt.Int(1), comment="two conditions"),
                  pt.Comment("note", pt.Pop(pt.Int(7))), sv.load())
    for v in (6, 8):
        out.append(("deferred_program_v%d" % v, (lambda v=v: rep(lambda: pt.compileTeal(prog, pt.Mode.Application, version=v)))))
    r = recipes.Gen(rng, version=6, mode="app", min_subs=1).program()
    rv = max(6, recipes.min_version(r))
    robj = build.build(r)
    out.append(("deferred_recipe", lambda: rep(lambda: pt.compileTeal(robj, pt.Mode.Application, version=rv))))
    cfg = c08.gen_config(rng)
    while len(cfg["methods"]) < 2:
        cfg = c08.gen_config(rng)
    cfg["grow"] = False
    router, _ = c08.build_router(pt, cfg)
    out.append(("deferred_router", lambda: rep(lambda: "\n".join(router.compile_program(version=8)[:2]))))
    return out


# ------------------------------------------------------------------------------------------------ probe programs
def probe_programs(pt, seed):
    """name -> thunk returning TEAL text(s).  Everything is built fresh from the seed; nothing is shared with the history."""
    from vlib import build, recipes
    from vlib.checks import c02, c08
    rng = random.Random("probe/%d" % seed)
    out = []
    for i in range(3):
        v = rng.choice([4, 6, 7, 8, 10])
        r = recipes.Gen(rng, version=v, mode="app", min_subs=1).program()
        v = max(v, recipes.min_version(r))
        for ss, fp in ((None, None), (False, False)):
            out.append(("recipe%d_v%d_%s_%s" % (i, v, ss, fp), (lambda r=r, v=v, ss=ss, fp=fp: build.compile_recipe(r, v, "app", ss, fp))))
    m = c02.mutual_family(rng)
    out.append(("mutual_v6", lambda m=m: build.compile_recipe(m, 6, "app", False, None)))
    out.append(("mutual_v9", lambda m=m: build.compile_recipe(m, 9, "app", None, None)))
    # routers: several methods, scratch and frame conventions, repeated compile_program on one router
    cfg = c08.gen_config(rng)
    while len(cfg["methods"]) < 2:
        cfg = c08.gen_config(rng)

    def router_probe(v, cfg=cfg):
        r, _ = c08.build_router(pt, cfg)
        outs = []
        for k in range(3):
            ap, cl, contract = r.compile_program(version=v)
            outs.append(sha(ap) + ":" + sha(cl) + ":" + sha(json.dumps(contract.dictify(), sort_keys=True)))
        return outs
    for v in (6, 7, 8, 10):
        out.append(("router_v%d" % v, (lambda v=v: router_probe(v))))

    def abi_router(v):
        def mk(i):
            def f(a: pt.abi.Uint64, b: pt.abi.String, *, output: pt.abi.Uint64):
                t = pt.ScratchVar(pt.TealType.uint64)
                return pt.Seq(t.store(a.get() + pt.Int(i)), output.set(t.load() + pt.Len(b.get())))
            f.__name__ = "meth%d" % i
            return pt.ABIReturnSubroutine(f)
        r = pt.Router("p", pt.BareCallActions(no_op=pt.OnCompleteAction.create_only(pt.Approve())), clear_state=pt.Approve())
        for i in range(3):
            r.add_method_handler(mk(i))
        return [sha(r.compile_program(version=v)[0]) for _ in range(3)]
    for v in (6, 8):
        out.append(("abi_router_v%d" % v, (lambda v=v: abi_router(v))))

    def same_object_twice(v):
        x = pt.abi.Uint64()
        s = pt.ScratchVar(pt.TealType.uint64)

        @pt.Subroutine(pt.TealType.uint64)
        def f(a):
            y = pt.abi.Uint16()
            return pt.Seq(y.set(a % pt.Int(7)), y.get() + a)
        prog = pt.Seq(x.set(5), s.store(f(x.get())), pt.Assert(s.load() > pt.Int(0), comment="positive"), pt.Log(pt.Itob(s.load())),
                      pt.Assert(s.load() < pt.Int(99), pt.Int(1), comment="both"), pt.Int(1))
        return rep(lambda: pt.compileTeal(prog, pt.Mode.Application, version=v))
    for v in (6, 8):
        out.append(("same_object_v%d" % v, (lambda v=v: same_object_twice(v))))
    def router_fail_then_ok():
        """A fresh router compiled at v7, and an identical router whose first compile_program (v6) fails in the clear-state program
        after the approval program was built, then compiled at v7: the same TEAL."""
        def mk():
            def mkm(i):
                def f(a: pt.abi.Uint64, *, output: pt.abi.Uint64):
                    t = pt.ScratchVar(pt.TealType.uint64)
                    return pt.Seq(t.store(a.get() * pt.Int(i + 2)), output.set(t.load()))
                f.__name__ = "fm%d" % i
                return pt.ABIReturnSubroutine(f)
            r = pt.Router("f", pt.BareCallActions(no_op=pt.OnCompleteAction.create_only(pt.Approve())),
                          clear_state=pt.Seq(pt.Pop(pt.Sha3_256(pt.Bytes("x"))), pt.Approve()))
            for i in range(2):
                r.add_method_handler(mkm(i))
            return r
        a = mk().compile_program(version=7)
        rb = mk()
        try:
            rb.compile_program(version=6)
            failed = "no"
        except pt.TealInputError:
            failed = "yes"
        b = rb.compile_program(version=7)
        c = rb.compile_program(version=7, optimize=pt.OptimizeOptions(frame_pointers=False))
        d = mk().compile_program(version=7, optimize=pt.OptimizeOptions(frame_pointers=False))
        assert failed == "yes"
        return [sha(a[0]) + sha(a[1]), sha(b[0]) + sha(b[1]), sha(c[0]) + sha(c[1]), sha(d[0]) + sha(d[1])]
    out.append(("router_fail_then_ok", router_fail_then_ok))

    def router_mixed_conventions():
        """One router compiled under the frame-pointer convention and then under the scratch convention (and back): every result
        must equal what a fresh router gives for that version."""
        def mk():
            def mkm(i):
                def f(a: pt.abi.Uint64, b: pt.abi.Uint64, *, output: pt.abi.Uint64):
                    t = pt.ScratchVar(pt.TealType.uint64)
                    return pt.Seq(t.store(a.get() * pt.Int(i + 2)), output.set(t.load() + b.get()))
                f.__name__ = "mx%d" % i
                return pt.ABIReturnSubroutine(f)
            r = pt.Router("x", pt.BareCallActions(no_op=pt.OnCompleteAction.create_only(pt.Approve())), clear_state=pt.Approve())
            for i in range(3):
                r.add_method_handler(mkm(i))
            return r
        fresh7 = sha(mk().compile_program(version=7)[0])
        fresh8 = sha(mk().compile_program(version=8)[0])
        r = mk()
        seq = [sha(r.compile_program(version=v)[0]) for v in (8, 7, 8, 7, 6, 7)]
        r2 = mk()
        seq2 = [sha(r2.compile_program(version=7, optimize=pt.OptimizeOptions(frame_pointers=fp))[0]) for fp in (False, None, False)]
        return ["7:" + fresh7, "7:" + seq[1], "7:" + seq[3], "7:" + seq[5], "7:" + seq2[0], "7:" + seq2[1], "7:" + seq2[2]] if fresh8 == seq[0] == seq[2] else ["8:" + fresh8, "8:" + seq[0], "8:" + seq[2]]
    out.append(("router_mixed_conventions", router_mixed_conventions))

    def reused_options():
        """The same program compiled with a fresh OptimizeOptions object and with an equal one that was used for another program
        before (the two programs share a ScratchVar that is explicitly numbered / passed by reference in the first)."""
        res = []
        for ss, v in ((True, 6), (None, 9), (True, 10)):
            shared = pt.ScratchVar(pt.TealType.uint64)
            numbered = pt.ScratchVar(pt.TealType.uint64, 17)

            @pt.Subroutine(pt.TealType.none)
            def bump(x: pt.ScratchVar):
                return x.store(x.load() + pt.Int(1))
            p1 = pt.Seq(shared.store(pt.Int(1)), numbered.store(pt.Int(2)), bump(shared), pt.Pop(numbered.load()), shared.load())
            p2 = pt.Seq(shared.store(pt.Int(7)), pt.Log(pt.Itob(shared.load())), numbered.store(pt.Int(8)), numbered.load())
            fresh = pt.compileTeal(p2, pt.Mode.Application, version=v, optimize=pt.OptimizeOptions(scratch_slots=ss))
            oo = pt.OptimizeOptions(scratch_slots=ss)
            pt.compileTeal(p1, pt.Mode.Application, version=v, optimize=oo)
            reused = pt.compileTeal(p2, pt.Mode.Application, version=v, optimize=oo)
            again = pt.compileTeal(p2, pt.Mode.Application, version=v, optimize=oo)
            res.append([sha(fresh), sha(reused), sha(again)])
        flat = [x for tri in res for x in tri]
        # list semantics of the monitor: all entries of a list must be equal -> report per setting, first differing triple wins
        for tri in res:
            if len(set(tri)) != 1:
                return tri
        return [res[0][0]] * 3
    out.append(("reused_options", reused_options))

    def method_call_probe(v):
        acct, asset, app = pt.abi.Account(), pt.abi.Asset(), pt.abi.Application()
        x, s = pt.abi.Uint64(), pt.abi.String()
        prog = pt.Seq(
            x.set(7), s.set("hi"),
            pt.InnerTxnBuilder.ExecuteMethodCall(
                app_id=pt.Int(5), method_signature="m(uint64,string,pay)void",
                args=[x, s, {pt.TxnField.type_enum: pt.TxnType.Payment, pt.TxnField.amount: pt.Int(1), pt.TxnField.receiver: pt.Txn.sender(), pt.TxnField.fee: pt.Int(0)}],
                extra_fields={pt.TxnField.fee: pt.Int(0), pt.TxnField.note: pt.Bytes("n"), pt.TxnField.on_completion: pt.OnComplete.NoOp,
                              pt.TxnField.rekey_to: pt.Global.zero_address(), pt.TxnField.lease: pt.Bytes("l" * 32)}),
            pt.InnerTxnBuilder.Execute({pt.TxnField.type_enum: pt.TxnType.AssetTransfer, pt.TxnField.xfer_asset: pt.Int(3), pt.TxnField.asset_amount: pt.Int(1),
                                        pt.TxnField.asset_receiver: pt.Txn.sender(), pt.TxnField.note: pt.Bytes("z"), pt.TxnField.fee: pt.Int(0)}),
            pt.Int(1))
        return pt.compileTeal(prog, pt.Mode.Application, version=v)
    for v in (6, 8):
        out.append(("method_call_v%d" % v, (lambda v=v: method_call_probe(v))))

    def catalogue_probe():
        """A seed-chosen slice of the constructor catalogue (every family of constructs, so set/dict iteration anywhere shows)."""
        from vlib import opcatalog
        E = opcatalog.entries(pt)
        picks = rng.sample(range(len(E)), 60)
        hh = hashlib.sha256()
        for i in sorted(picks):
            ent = E[i]
            for v in (6, 10):
                try:
                    t = pt.compileTeal(opcatalog.wrap(pt, ent), pt.Mode.Application, version=v, assembleConstants=(i % 2 == 0))
                except Exception as e:
                    t = "EXC " + type(e).__name__
                hh.update(t.encode())
        return hh.hexdigest()[:20]
    out.append(("catalogue_slice", catalogue_probe))

    def odd_names(v):
        """Subroutines whose names contain no ASCII letter or digit (their labels cannot be derived from the name)."""
        def mk(nm, k):
            def f(x):
                return x + pt.Int(k)
            f.__name__ = "_" * (k + 1)
            return pt.Subroutine(pt.TealType.uint64, name=nm)(f)
        subs = [mk(None, 0), mk(None, 1), mk("<>", 2), mk("--", 3), mk("\u00e9\u00e8", 4)]
        e = pt.Int(1)
        for f in subs:
            e = e + f(pt.Int(2))
        return rep(lambda: pt.compileTeal(e, pt.Mode.Application, version=v))
    for v in (6, 8):
        out.append(("odd_names_v%d" % v, (lambda v=v: odd_names(v))))

    def cross_version(recipe_or_expr, vs):
        """One expression object compiled at several versions in turn; each result must equal what a fresh object gives at that
        version (nothing a compilation learns about the target may stay on the object)."""
        res = []
        obj = recipe_or_expr()
        for v in vs:
            try:
                res.append((v, sha(pt.compileTeal(obj, pt.Mode.Application, version=v))))
            except BaseException as e:
                res.append((v, "EXC:" + type(e).__name__))
        return res

    def xv_program():
        s = pt.ScratchVar(pt.TealType.bytes)
        mv1 = pt.App.globalGetEx(pt.Int(0), pt.Bytes("k"))       # v2+
        mv2 = pt.AccountParam.balance(pt.Txn.sender())          # v6+: compiling below that fails at this very node
        return pt.Seq(s.store(pt.Concat(pt.Bytes("0123456789abcdef"), pt.Txn.application_args[0])),
                      pt.Pop(pt.Substring(s.load(), pt.Int(2), pt.Int(10))), pt.Pop(pt.Extract(s.load(), pt.Int(1), pt.Int(3))),
                      pt.Pop(pt.Suffix(s.load(), pt.Int(4))), pt.Pop(pt.Substring(s.load(), pt.Int(0), pt.Len(s.load()))),
                      pt.Pop(pt.GetByte(s.load(), pt.Int(1))), pt.Pop(pt.Btoi(pt.Extract(s.load(), pt.Int(0), pt.Int(8)))),
                      pt.Pop(pt.Itob(pt.Int(7))),
                      # operations with several results (their output slots are per object), available from different versions
                      pt.Pop(pt.App.globalGetEx(pt.Int(0), pt.Bytes("k")).value()) if False else pt.Seq(mv1, pt.Pop(mv1.hasValue()), pt.Pop(mv1.value())),
                      pt.Seq(mv2, pt.Assert(mv2.hasValue()), pt.Pop(mv2.value())),
                      pt.Int(1))
    for order in ([4, 6], [6, 4], [2, 5, 8], [10, 3, 6], [5, 6], [3, 5, 7]):

        def xv(order=order):
            seqr = dict(cross_version(xv_program, order))
            outl = []
            for v in order:
                fresh = dict(cross_version(xv_program, [v]))[v]
                outl.append("v%d:%s" % (v, "same" if fresh == seqr[v] else "DIFFERS(%s vs fresh %s)" % (seqr[v][:8], fresh[:8])))
            return ["same" if x.endswith("same") else x for x in outl] + ["same"]
        out.append(("cross_version_%s" % "_".join(map(str, order)), xv))
    def assembled_kinds(v):
        """Method selectors, base64 and hex literals under assembleConstants: their values depend on the literal's kind, not on
        whether a literal with the same text (of another kind) was seen before in this process."""
        prog = pt.Seq(pt.Pop(pt.MethodSignature("ping()void")), pt.Pop(pt.MethodSignature("add(uint64,uint64)uint64")), pt.Pop(pt.Bytes("base64", "YQ==")),
                      pt.Pop(pt.Bytes("base16", "0x6162")), pt.Pop(pt.MethodSignature("ping()void")), pt.Pop(pt.Bytes("ping()void")), pt.Int(1))
        return rep(lambda: pt.compileTeal(prog, pt.Mode.Application, version=v, assembleConstants=True))
    for v in (6, 10):
        out.append(("assembled_kinds_v%d" % v, (lambda v=v: assembled_kinds(v))))
    out.append(("template", lambda: pt.compileTeal(pt.Seq(pt.Pop(pt.Tmpl.Bytes("TMPL_K")), pt.Tmpl.Int("TMPL_N")), pt.Mode.Signature, version=6, assembleConstants=True)))
    return out


# ------------------------------------------------------------------------------------------------ history activities
class Boom(Exception):
    pass


def do_activity(pt, act):
    """Perform one history activity; returns a short outcome string.  Exceptions are caught: the session continues."""
    from vlib import build, recipes
    from vlib.checks import c02, c08
    rng = random.Random("act/%d" % act["seed"])
    kind = act["kind"]
    try:
        if kind == "compile_ok":
            v = rng.choice([2, 4, 6, 8, 10])
            r = recipes.Gen(rng, version=v, mode=rng.choice(["app", "sig"]), min_subs=rng.choice([0, 1])).program()
            build.compile_recipe(r, max(v, recipes.min_version(r)), r["mode"], rng.choice([None, True, False]), None)
        elif kind == "compile_version_too_low":
            r = recipes.Gen(rng, version=8, mode="app", min_subs=1).program()
            build.compile_recipe(r, 2, "app")
        elif kind == "body_raises":
            # a subroutine whose Python body raises while it is being evaluated (under either calling convention)
            @pt.Subroutine(pt.TealType.uint64)
            def bad(a):
                x = pt.abi.Uint64()
                raise Boom("user code failed inside a subroutine body")
            y = pt.abi.Uint64()
            pt.compileTeal(pt.Seq(y.set(1), bad(y.get())), pt.Mode.Application, version=rng.choice([6, 8, 10]))
        elif kind == "abi_body_raises":
            @pt.ABIReturnSubroutine
            def bad2(a: pt.abi.Uint64, *, output: pt.abi.Uint64):
                raise pt.TealInputError("rejected inside an ABI subroutine body")
            r = pt.Router("h", pt.BareCallActions(no_op=pt.OnCompleteAction.create_only(pt.Approve())), clear_state=pt.Approve())
            r.add_method_handler(bad2)
            r.compile_program(version=rng.choice([6, 8]))
        elif kind == "uninit":
            v = pt.ScratchVar(pt.TealType.uint64)
            pt.compileTeal(v.load(), pt.Mode.Application, version=6)
        elif kind == "type_error":
            pt.compileTeal(pt.Int(1) + pt.Bytes("x"), pt.Mode.Application, version=6)
        elif kind == "router_ok":
            cfg = c08.gen_config(rng)
            r, _ = c08.build_router(pt, cfg)
            for _ in range(rng.choice([1, 2])):
                r.compile_program(version=rng.choice([6, 7, 8, 10]))
        elif kind == "router_fails":
            cfg = c08.gen_config(rng)
            r, _ = c08.build_router(pt, cfg)
            r.compile_program(version=rng.choice([2, 3, 4]))
        elif kind == "mutual":
            build.compile_recipe(c02.mutual_family(rng), rng.choice([5, 6, 8, 9]), "app", rng.choice([None, True, False]), None)
        elif kind == "templates":
            pt.compileTeal(pt.Seq(pt.Pop(pt.Tmpl.Bytes("TMPL_K")), pt.Pop(pt.Tmpl.Addr("TMPL_N")), pt.Tmpl.Int("TMPL_Z")), pt.Mode.Signature, version=6,
                           assembleConstants=rng.random() < .5)
        elif kind == "assembled_literals":
            # byte literals whose *text* equals texts that other programs use as literals of another kind
            texts = ["ping()void", "add(uint64,uint64)uint64", "TMPL_K", "NoOp", "YQ==", "0x6162"]
            rng.shuffle(texts)
            pt.compileTeal(pt.Seq(*[pt.Pop(pt.Bytes(t)) for t in texts[:4]], *[pt.Pop(pt.Bytes(t)) for t in texts[:2]], pt.Int(1)), pt.Mode.Application, version=6,
                           assembleConstants=True)
        elif kind == "many_slots":
            vs = [pt.ScratchVar(pt.TealType.uint64) for _ in range(rng.choice([10, 100, 257]))]
            pt.compileTeal(pt.Seq(*[v.store(pt.Int(1)) for v in vs], pt.Add(pt.Int(0), pt.Int(0), *[v.load() for v in vs])), pt.Mode.Application, version=6)
        elif kind == "crashpoint":
            return crashpoint(pt, act, rng)
        else:
            return "unknown"
        return "ok"
    except BaseException as e:  # the session continues whatever happened
        return "raised:" + type(e).__name__


def crashpoint(pt, act, rng):
    """Raise a chosen exception at the k-th function entry inside pyteal during a compilation (sys.monitoring failpoint)."""
    from vlib import build, recipes
    from vlib.checks import c08
    mon = sys.monitoring
    TOOL = 3
    what = act.get("target", "recipe")
    exc_cls = {"input": pt.TealInputError, "compile": pt.TealCompileError, "value": ValueError, "key": KeyError}[act.get("exc", "input")]
    state = {"n": 0, "k": act["k"], "fired": False, "where": None}

    def on_start(code, offset):
        if "/pyteal/" not in code.co_filename:
            return mon.DISABLE
        state["n"] += 1
        if state["n"] == state["k"] and not state["fired"]:
            state["fired"] = True
            state["where"] = "%s:%s" % (code.co_filename.split("/pyteal/")[-1], code.co_name)
            raise exc_cls("injected failure #%d" % state["k"])
    if what == "router":
        cfg = c08.gen_config(rng)
        thunk = lambda: c08.build_router(pt, cfg)[0].compile_program(version=rng.choice([6, 8]))  # noqa: E731
    else:
        r = recipes.Gen(rng, version=8, mode="app", min_subs=1).program()
        v = max(rng.choice([6, 8, 9]), recipes.min_version(r))
        thunk = lambda: build.compile_recipe(r, v, "app")  # noqa: E731
    try:
        mon.use_tool_id(TOOL, "c11-failpoint")
    except ValueError:
        pass
    mon.register_callback(TOOL, mon.events.PY_START, on_start)
    mon.set_events(TOOL, mon.events.PY_START)
    try:
        thunk()
        res = "ok"
    except BaseException as e:
        res = "raised:" + type(e).__name__
    finally:
        mon.set_events(TOOL, 0)
        mon.register_callback(TOOL, mon.events.PY_START, None)
        try:
            mon.restart_events()
        except Exception:
            pass
    return "%s fired=%s n=%d at=%s" % (res, state["fired"], state["n"], state["where"])


def main():
    spec = json.load(open(sys.argv[1]))
    sys.setrecursionlimit(6000)
    if spec.get("gate"):
        from feature_gates import FeatureGates
        FeatureGates.set_sourcemap_enabled(True)
    import pyteal as pt
    out = {"history": [], "state": [], "probes": {}, "errors": {}}
    deferred = deferred_programs(pt, spec["probe_seed"])
    for act in spec.get("history", []):
        out["history"].append(do_activity(pt, act))
        out["state"].append(globals_snapshot(pt))
    for name, thunk in deferred + probe_programs(pt, spec["probe_seed"]):
        try:
            r = thunk()
            out["probes"][name] = [x if len(x) < 70 else sha(x) for x in r] if isinstance(r, list) else sha(r)
        except BaseException as e:
            out["probes"][name] = "EXC:" + type(e).__name__ + ":" + str(e)[:120]
            out["errors"][name] = traceback.format_exc()[-600:]
    out["final_state"] = globals_snapshot(pt)
    json.dump(out, open(sys.argv[2], "w"))


if __name__ == "__main__":
    main()
