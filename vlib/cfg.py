"""Static structure of emitted TEAL: legality against langspec (C04) and a forced-branch abstract run that
drives every CFG edge with shadow values (heights and type tags) for the stack discipline (C05).

Nothing in here imports pyteal.
"""
from collections import Counter

from . import langspec as L
from .tealgrammar import (ParseError, decode_address, method_selector, parse, parse_bytes_args, parse_int, split_lines,
                          tokenize)

TERMINATORS = {"return", "retsub", "err"}
BRANCHES = {"b", "bz", "bnz"}


class Finding:
    __slots__ = ("kind", "detail", "line")

    def __init__(self, kind, detail, line=0):
        self.kind, self.detail, self.line = kind, detail, line

    def __repr__(self):
        return "%s@%d: %s" % (self.kind, self.line, self.detail)

    def as_list(self):
        return [self.kind, self.detail, self.line]


def _u8(tok):
    if not (tok.isdigit() and tok.isascii()):
        return None
    v = int(tok)
    return v if 0 <= v <= 255 else None


def _i8(tok):
    t = tok[1:] if tok[:1] == "-" else tok
    if not (t.isdigit() and t.isascii()):
        return None
    v = int(tok)
    return v if -128 <= v <= 127 else None


def routine_entries(prog):
    """label -> pc for every callsub target."""
    ent = {}
    for I in prog.instrs:
        if I.op == "callsub" and I.args and I.args[0] in prog.labels:
            ent[I.args[0]] = prog.labels[I.args[0]]
    return ent


def check_legal(text, version, mode):
    """Return (findings, counters).  mode: 'sig' | 'app'.  Only `certain` table entries yield findings."""
    out = []
    cnt = Counter()
    lines = split_lines(text)
    first = next((l for l in lines if l.strip()), "")
    if tokenize(first) != ["#pragma", "version", str(version)]:
        out.append(Finding("pragma", "first line %r is not '#pragma version %d'" % (first, version), 1))
    try:
        prog = parse(text, strict_labels=False)
    except ParseError as e:
        try:
            prog = parse(text, legacy=True, strict_labels=False)
            cnt["parsed_only_under_legacy_quoting"] += 1
        except ParseError as e2:
            out.append(Finding("parse", str(e2)))
            return out, cnt, None
    if prog.version != version:
        out.append(Finding("pragma", "pragma version %d != requested %d" % (prog.version, version)))
    for lab in prog.dup_labels:
        out.append(Finding("duplicate_label", lab, prog.label_lines.get(lab, 0)))
    m = "s" if mode == "sig" else "a"
    ins = prog.instrs
    for pc, I in enumerate(ins):
        op, a = I.op, I.args
        cnt["ops"] += 1
        spec = L.OPS.get(op)
        if spec is None:
            out.append(Finding("unknown_op", "%s %s" % (op, " ".join(a)), I.line))
            continue
        sure = spec.conf == L.C
        if spec.minv > version:
            if sure:
                out.append(Finding("op_version", "%s needs v%d, program is v%d" % (op, spec.minv, version), I.line))
            else:
                cnt["unknown_construct"] += 1
        if m not in spec.modes:
            if sure:
                out.append(Finding("op_mode", "%s not available in mode %s" % (op, mode), I.line))
            else:
                cnt["unknown_construct"] += 1
        # immediates
        rest = list(a)
        ok = True
        for kind in spec.imm:
            if kind in (L.INTS,):
                for t in rest:
                    try:
                        parse_int(t)
                    except ParseError:
                        out.append(Finding("immediate", "%s: bad int %r" % (op, t), I.line)); ok = False
                rest = []
            elif kind == L.BYTESS:
                while rest:
                    try:
                        _, n = parse_bytes_args(rest)
                    except ParseError as e:
                        out.append(Finding("immediate", "%s: %s" % (op, e), I.line)); ok = False
                        break
                    rest = rest[n:]
                rest = []
            elif kind == "labels":
                for t in rest:
                    if t not in prog.labels:
                        out.append(Finding("undefined_label", t, I.line))
                rest = []
            else:
                if not rest:
                    out.append(Finding("immediate", "%s: missing immediate (%s)" % (op, kind), I.line)); ok = False
                    break
                t = rest[0]
                if kind == L.U8:
                    if _u8(t) is None:
                        out.append(Finding("immediate", "%s: %r is not a uint8" % (op, t), I.line)); ok = False
                    rest = rest[1:]
                elif kind == L.I8:
                    if _i8(t) is None:
                        out.append(Finding("immediate", "%s: %r is not an int8" % (op, t), I.line)); ok = False
                    rest = rest[1:]
                elif kind == L.LABEL:
                    if t not in prog.labels:
                        out.append(Finding("undefined_label", "%s %s" % (op, t), I.line))
                    elif version < 4 and prog.labels[t] <= pc:
                        out.append(Finding("backjump", "%s %s goes backward at v%d" % (op, t, version), I.line))
                    rest = rest[1:]
                elif kind == L.INTLIT:
                    try:
                        parse_int(t)
                    except ParseError as e:
                        out.append(Finding("immediate", "%s: %s" % (op, e), I.line)); ok = False
                    rest = rest[1:]
                elif kind == L.BYTELIT:
                    try:
                        _, n = parse_bytes_args(rest)
                        rest = rest[n:]
                    except ParseError as e:
                        out.append(Finding("immediate", "%s: %s" % (op, e), I.line)); ok = False
                        rest = []
                elif kind == L.ADDR:
                    try:
                        decode_address(t)
                    except ParseError as e:
                        # checksum-less addresses are PyTeal's known finding (C13); classified there
                        out.append(Finding("address", "%s: %s" % (t, e), I.line))
                    rest = rest[1:]
                elif kind == L.METHOD:
                    try:
                        method_selector(t)
                    except ParseError as e:
                        out.append(Finding("immediate", "method: %s" % e, I.line))
                    rest = rest[1:]
                elif kind in (L.F_TXN, L.F_TXNA, L.F_ITXN):
                    e = L.TXN_FIELDS.get(t)
                    if e is None:
                        out.append(Finding("unknown_field", "%s %s" % (op, t), I.line))
                    else:
                        fv, _, arr = e
                        if fv > version:
                            out.append(Finding("field_version", "%s %s needs v%d at v%d" % (op, t, fv, version), I.line))
                        if kind == L.F_TXN and arr:
                            # `txn ApplicationArgs 0` is accepted by the assembler as txna; PyTeal never emits it
                            if len(rest) < 2:
                                out.append(Finding("field_arity", "%s %s is an array field" % (op, t), I.line))
                        if kind == L.F_TXNA and not arr:
                            out.append(Finding("field_arity", "%s %s is not an array field" % (op, t), I.line))
                        if kind == L.F_ITXN and t in L.ITXN_UNSETTABLE:
                            cnt["itxn_field_unsettable"] += 1
                    rest = rest[1:]
                elif kind.startswith("f:"):
                    tab = L.FIELD_TABLES.get(kind)
                    if tab is None:
                        cnt["unknown_construct"] += 1
                    else:
                        e = tab.get(t)
                        if e is None:
                            out.append(Finding("unknown_field", "%s %s" % (op, t), I.line))
                        elif e[0] > version:
                            out.append(Finding("field_version", "%s %s needs v%d at v%d" % (op, t, e[0], version), I.line))
                    rest = rest[1:]
        if ok and rest:
            out.append(Finding("immediate", "%s: extra tokens %r" % (op, rest), I.line))
    out.extend(check_paths(prog))
    return out, cnt, prog


def successors(prog, pc):
    I = prog.instrs[pc]
    op = I.op
    if op in TERMINATORS:
        return []
    if op == "b":
        t = prog.labels.get(I.args[0]) if I.args else None
        return [t] if t is not None else []
    if op in ("bz", "bnz"):
        t = prog.labels.get(I.args[0]) if I.args else None
        return [pc + 1] + ([t] if t is not None else [])
    if op in ("switch", "match"):
        return [pc + 1] + [prog.labels[x] for x in I.args if x in prog.labels]
    return [pc + 1]


def check_paths(prog):
    """Every path from the entry and from each routine label ends in return/retsub/err, never runs off the
    end, never enters another routine except through callsub; proto first in its routine; retsub unreachable
    from the main entry; frame ops only in routines with proto."""
    out = []
    ins = prog.instrs
    n = len(ins)
    ent = routine_entries(prog)
    entry_pcs = {pc: lab for lab, pc in ent.items()}
    owner = {}
    roots = [("<main>", 0)] + sorted(ent.items(), key=lambda kv: kv[1])
    for name, root in roots:
        if root >= n:
            out.append(Finding("falls_off_end", "routine %s starts at end of program" % name))
            continue
        has_proto = ins[root].op == "proto"
        seen = set()
        work = [root]
        while work:
            pc = work.pop()
            if pc in seen:
                continue
            if pc >= n:
                out.append(Finding("falls_off_end", "a path of routine %s runs off the end of the program" % name))
                continue
            if pc != root and pc in entry_pcs:
                out.append(Finding("falls_into_routine", "a path of routine %s enters routine %s without callsub"
                                   % (name, entry_pcs[pc]), ins[pc].line))
                continue
            seen.add(pc)
            if pc in owner and owner[pc] != name:
                out.append(Finding("shared_code", "pc %d reachable from %s and %s" % (pc, owner[pc], name), ins[pc].line))
            owner[pc] = name
            I = ins[pc]
            if I.op == "retsub" and name == "<main>":
                out.append(Finding("retsub_in_main", "retsub reachable from the program entry", I.line))
            if I.op == "proto" and pc != root:
                out.append(Finding("proto_position", "proto not first in routine %s" % name, I.line))
            if I.op == "proto" and name == "<main>":
                out.append(Finding("proto_position", "proto in the main routine", I.line))
            if I.op in ("frame_dig", "frame_bury") and not has_proto:
                out.append(Finding("frame_without_proto", "%s in routine %s which has no proto" % (I.op, name), I.line))
            work.extend(successors(prog, pc))
    return out


# ---------------------------------------------------------------- forced-branch abstract run (C05)
def _join(a, b):
    return a if a == b else "?"


class AbsState:
    __slots__ = ("stack", "borrow")

    def __init__(self, stack, borrow):
        self.stack = stack  # list of tags above the routine's entry height (entry excludes nothing: see borrow)
        self.borrow = borrow  # how many cells below the entry height were consumed so far


def slot_types(prog):
    """Flow-insensitive type of each scratch slot: join of the tags stored (needs the abstract run, so it is
    computed iteratively by abstract_run)."""
    return {}


def abstract_run(prog, max_iter=60000):
    """Drive every edge of every routine with shadow values.  Returns (findings, stats)."""
    out = []
    stats = Counter()
    ins = prog.instrs
    n = len(ins)
    ent = routine_entries(prog)
    has_stores_dyn = any(I.op == "stores" for I in ins)
    slot_ty = {}  # slot -> tag (join of stored tags); unwritten -> 'i' (zero)
    summaries = {}  # label -> (nargs, [result tags]) or None while unknown

    def add(kind, detail, line):
        if len(out) < 50:
            out.append(Finding(kind, detail, line))

    for lab, root in ent.items():
        if root < n and ins[root].op == "proto":
            a = ins[root].args
            try:
                summaries[lab] = (int(a[0]), ["?"] * int(a[1]))
            except Exception:
                pass

    def analyse(name, root, slot_ty, summaries):
        """returns (complete, exits) where exits = list of (borrow, stack) at retsub; findings appended."""
        is_main = name == "<main>"
        proto = None
        if not is_main and root < n and ins[root].op == "proto":
            try:
                proto = (int(ins[root].args[0]), int(ins[root].args[1]))
            except Exception:
                proto = None
        states = {}  # pc -> (borrow, tuple(stack))
        work = [(root, 0, ())]
        exits = []
        waiting = False
        it = 0
        while work:
            it += 1
            if it > max_iter:
                stats["abstract_iter_cap"] += 1
                return False, exits
            pc, borrow, stack = work.pop()
            if pc >= n:
                continue
            old = states.get(pc)
            if old is not None:
                ob, os_ = old
                if ob != borrow or len(os_) != len(stack):
                    add("height", "routine %s pc=%d op=%s: height %d(borrow %d) vs earlier %d(borrow %d)"
                        % (name, pc, ins[pc].op, len(stack), borrow, len(os_), ob), ins[pc].line)
                    continue
                merged = tuple(_join(x, y) for x, y in zip(os_, stack))
                if merged == os_:
                    continue
                stack = merged
            states[pc] = (borrow, stack)
            I = ins[pc]
            op, a = I.op, I.args
            st = list(stack)

            def popn(k, want=None):
                nonlocal borrow
                got = []
                for j in range(k):
                    if st:
                        got.append(st.pop())
                    else:
                        borrow += 1
                        got.append("?")
                        if is_main:
                            add("underflow", "main routine pops below its entry height at pc=%d op=%s" % (pc, op), I.line)
                        elif proto is not None:
                            add("underflow", "routine %s (proto) pops below its frame at pc=%d op=%s" % (name, pc, op), I.line)
                got.reverse()
                if want:
                    for w, g in zip(want, got):
                        if w in "ib" and g in "ib" and w != g:
                            add("type", "op %s at pc=%d wants %s got %s (routine %s)" % (op, pc, want, "".join(got), name), I.line)
                            break
                return got

            spec = L.OPS.get(op)
            nxt = None
            if op in ("return", "err"):
                if op == "return":
                    popn(1, "i")
                    if is_main and (st or borrow):
                        add("exit_height", "main routine returns with %d extra value(s) on the stack at pc=%d" % (len(st), pc), I.line)
                continue
            if op == "retsub":
                if proto is not None:
                    if len(st) < proto[1]:
                        add("retsub_arity", "routine %s: retsub with %d values, proto declares %d" % (name, len(st), proto[1]), I.line)
                    exits.append((proto[0], list(st[: proto[1]])))
                else:
                    exits.append((borrow, list(st)))
                continue
            if op == "callsub":
                lab = a[0] if a else None
                summ = summaries.get(lab)
                if summ is None:
                    waiting = True
                    stats["deferred_callsub"] += 1
                    del states[pc]
                    continue
                if summ == "NR":  # callee never returns (every path ends in return/err)
                    continue
                na, rets = summ
                popn(na)
                st.extend(rets)
            elif op == "proto":
                pass
            elif op == "dig":
                k = int(a[0])
                if k < len(st):
                    st.append(st[-1 - k])
                else:
                    if is_main:
                        add("underflow", "dig %d beyond main's stack at pc=%d" % (k, pc), I.line)
                    st.append("?")
            elif op == "cover":
                k = int(a[0])
                if k < len(st):
                    x = st.pop(); st.insert(len(st) - k, x)
                else:
                    need = k + 1 - len(st)
                    if is_main or proto is not None:
                        add("underflow", "cover %d beyond routine's stack at pc=%d" % (k, pc), I.line)
                    st = ["?"] * len(st)
            elif op == "uncover":
                k = int(a[0])
                if k < len(st):
                    x = st.pop(len(st) - 1 - k); st.append(x)
                else:
                    if is_main or proto is not None:
                        add("underflow", "uncover %d beyond routine's stack at pc=%d" % (k, pc), I.line)
                    st = ["?"] * len(st)
            elif op == "bury":
                k = int(a[0])
                if k == 0 or k >= len(st):
                    add("underflow", "bury %d outside routine's stack at pc=%d" % (k, pc), I.line)
                else:
                    st[-1 - k] = st[-1]
                st and st.pop()
            elif op == "popn":
                popn(int(a[0]))
            elif op == "dupn":
                x = popn(1)[0]
                st.extend([x] * (int(a[0]) + 1))
            elif op == "swap":
                q = popn(2)
                st.extend([q[1], q[0]])
            elif op == "dup":
                x = popn(1)[0]; st.extend([x, x])
            elif op == "dup2":
                q = popn(2); st.extend(q + q)
            elif op == "select":
                q = popn(3, "aai"); st.append(_join(q[0], q[1]))
            elif op == "load":
                k = int(a[0])
                st.append("?" if has_stores_dyn else slot_ty.get(k, "i0"))
                if st[-1] == "i0":
                    st[-1] = "?"  # never-stored slot (in this pass): stay silent
            elif op == "store":
                t = popn(1)[0]
                k = int(a[0])
                slot_ty[k] = _join(slot_ty[k], t) if k in slot_ty else t
            elif op == "frame_dig":
                k = int(a[0])
                if k >= 0:
                    if k < len(st):
                        st.append(st[k])
                    else:
                        add("frame_range", "frame_dig %d beyond routine %s's stack (%d) at pc=%d" % (k, name, len(st), pc), I.line)
                        st.append("?")
                else:
                    if proto is not None and -k > proto[0]:
                        add("frame_range", "frame_dig %d below the %d args of routine %s" % (k, proto[0], name), I.line)
                    st.append("?")
            elif op == "frame_bury":
                k = int(a[0])
                t = popn(1)[0]
                if k >= 0:
                    if k < len(st):
                        st[k] = t
                    else:
                        add("frame_range", "frame_bury %d beyond routine %s's stack (%d) at pc=%d" % (k, name, len(st), pc), I.line)
                else:
                    if proto is not None and -k > proto[0]:
                        add("frame_range", "frame_bury %d below the %d args of routine %s" % (k, proto[0], name), I.line)
            elif op in ("setbit",):
                q = popn(3, "aii"); st.append(q[0])
            elif op in ("txn", "gtxn", "txna", "gtxna", "itxn", "itxna", "gitxn", "gitxna", "global", "txnas", "gtxnas",
                        "gtxns", "gtxnsa", "gtxnsas", "itxnas", "gitxnas"):
                popn(len(spec.pops), spec.pops)
                fname = next((t for t in a if not t.lstrip("-").isdigit()), None)
                kind = L.F_GLOBAL if op == "global" else L.F_TXN
                st.append(L.field_type(kind, fname))
            elif op in ("asset_holding_get", "asset_params_get", "app_params_get", "acct_params_get"):
                popn(len(spec.pops), spec.pops)
                kind = {"asset_holding_get": L.F_AHOLD, "asset_params_get": L.F_APARAM, "app_params_get": L.F_APP,
                        "acct_params_get": L.F_ACCT}[op]
                # a missing entry pushes 0 (uint64) whatever the field type: the value cell is 'any'
                st.extend(["?", "i"])
            elif spec is None or spec.pops is None or spec.pushes is None:
                stats["abstract_unknown_op"] += 1
                return False, exits
            else:
                popn(len(spec.pops), spec.pops)
                st.extend("?" if c == "a" else c for c in spec.pushes)
            if len(st) > 1000:
                add("overflow", "abstract stack exceeds 1000 at pc=%d" % pc, I.line)
                continue
            tup = tuple(st)
            if op == "b":
                t = prog.labels.get(a[0])
                if t is not None:
                    work.append((t, borrow, tup))
            elif op in ("bz", "bnz"):
                t = prog.labels.get(a[0])
                work.append((pc + 1, borrow, tup))
                if t is not None:
                    work.append((t, borrow, tup))
                stats["forced_branches"] += 1
            else:
                work.append((pc + 1, borrow, tup))
        stats["abstract_pcs"] += len(states)
        return not waiting, exits

    roots = [("<main>", 0)] + sorted(ent.items(), key=lambda kv: kv[1])
    # iterate: slot types and summaries grow monotonically; findings are collected on the last pass only
    for rnd in range(12):
        before = (dict(slot_ty), {k: (v if v == "NR" else (v[0], tuple(v[1]))) for k, v in summaries.items() if v})
        out.clear()
        all_complete = True
        for name, root in roots:
            complete, exits = analyse(name, root, slot_ty, summaries)
            all_complete = all_complete and complete
            if name != "<main>" and complete and not exits:
                summaries[name] = "NR"
            if name != "<main>" and exits:
                b0, s0 = exits[0]
                bad = False
                for b, s in exits[1:]:
                    if b != b0 or len(s) != len(s0):
                        add("retsub_arity", "routine %s returns with different stack effects (-%d,+%d) vs (-%d,+%d)"
                            % (name, b0, len(s0), b, len(s)), ins[root].line)
                        bad = True
                if not bad:
                    rets = list(s0)
                    for b, s in exits[1:]:
                        rets = [_join(x, y) for x, y in zip(rets, s)]
                    if root < n and ins[root].op == "proto":
                        na, nr = summaries[name][0], len(summaries[name][1])
                        rets = (rets + ["?"] * nr)[:nr]
                        summaries[name] = (na, rets)
                    else:
                        summaries[name] = (b0, rets)
        after = (dict(slot_ty), {k: (v if v == "NR" else (v[0], tuple(v[1]))) for k, v in summaries.items() if v})
        if after == before and all_complete:
            break
    else:
        stats["abstract_no_fixpoint"] += 1
    stats["routines"] = len(roots)
    if not all_complete:
        stats["abstract_incomplete"] += 1
    return out, stats
