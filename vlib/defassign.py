"""Definite-assignment analysis on recipe trees (oracle for C17).  Never imports pyteal.

may_read_unassigned(recipe) -> list of (routine, var id) for every load of a routine-local scratch variable that some syntactic
control-flow path reaches without a store to that variable.  Path = path in the source control-flow graph: both arms of every
conditional, zero or more iterations of every loop, Break/Continue edges; code after Return/Approve/Reject/Err/Break/Continue in
the same sequence is unreachable.  Operands are evaluated left to right; n-ary And/Or evaluate every operand.

Exempt (the property speaks of variables used by a single routine through direct loads/stores): variables passed by reference,
variables a DynamicScratchVar points at, variables referenced from more than one routine.
"""


class _State:
    """Set of definitely assigned variables, or None for 'unreachable'."""
    pass


def _meet(a, b):
    if a is None:
        return b
    if b is None:
        return a
    return a & b


class Analysis:
    def __init__(self, recipe):
        self.r = recipe
        self.flagged = []  # (routine, vid)
        self.called = set()
        self.exempt = set()
        self._collect_exempt()

    # ------------------------------------------------------------------ exemptions
    def _collect_exempt(self):
        r = self.r
        used_by = {}

        def note(routine, node):
            if not isinstance(node, list) or not node:
                return
            if isinstance(node[0], str):
                k = node[0]
                if k in ("load", "store") and isinstance(node[1], str):
                    used_by.setdefault(node[1], set()).add(routine)
                if k == "ref":
                    self.exempt.add(node[1])
                if k == "dset":
                    self.exempt.add(node[2])
                    self.exempt.add(node[1])
                if k in ("dload", "dstore"):
                    self.exempt.add(node[1])
                for x in node[1:]:
                    note(routine, x)
            else:
                for x in node:
                    note(routine, x)
        note("main", r["main"])
        note("main", r["final"])
        globals_ = {d["id"] for d in r.get("vars", [])}
        for k, s in enumerate(r.get("subs", [])):
            note("s%d" % k, s["body"])
            if s.get("retexpr") is not None:
                note("s%d" % k, s["retexpr"])
        for vid, routines in used_by.items():
            if vid in globals_ and len(routines) > 1:
                self.exempt.add(vid)
            if vid in globals_ and routines and "main" not in routines:
                pass
        for d in r.get("vars", []):
            if d.get("kind") == "dyn":
                self.exempt.add(d["id"])

    # ------------------------------------------------------------------ expressions
    def ex(self, e, st, ctx):
        """Returns the state after evaluating e (None if evaluation cannot complete)."""
        if st is None or not isinstance(e, list) or not e:
            return st
        k = e[0]
        if k == "load":
            vid = e[1]
            if vid in ctx["tracked"] and vid not in st and vid not in self.exempt:
                self.flagged.append((ctx["routine"], vid))
            return st
        if k == "seqx":
            st = self.seq(e[1], st, ctx)
            return self.ex(e[2], st, ctx)
        if k == "ifx":
            st = self.ex(e[1], st, ctx)
            a = self.ex(e[2], st, ctx)
            b = self.ex(e[3], st, ctx)
            return _meet(a, b)
        if k == "condx":
            out = None
            first = True
            for c, v in e[1]:
                st = self.ex(c, st, ctx)
                out = self.ex(v, st, ctx) if first else _meet(out, self.ex(v, st, ctx))
                first = False
            return out
        if k == "gex":
            st = self.ex(e[1], st, ctx)
            return _meet(st, self.ex(e[2], st, ctx))
        if k == "call":
            self.called.add(e[1])  # reached only in live code: ex() returns early when st is None
            for a in e[2]:
                if isinstance(a, list) and a and a[0] in ("ref", "refparam", "abi"):
                    if a[0] == "abi":
                        st = self.ex(["load", a[1]], st, ctx)
                    continue
                st = self.ex(a, st, ctx)
            return st
        if k == "nary":
            for x in e[2]:
                st = self.ex(x, st, ctx)
            return st
        for x in e[1:]:
            if isinstance(x, list):
                st = self.ex(x, st, ctx)
        return st

    # ------------------------------------------------------------------ statements
    def seq(self, stmts, st, ctx):
        for s in stmts:
            st = self.st(s, st, ctx)
        return st

    def st(self, s, st, ctx):
        if st is None:
            if s and s[0] != "nop":
                self.has_dead_code = True  # a statement behind an unconditional Return/Break/Continue/exit
            return None
        k = s[0]
        if k == "store":
            st = self.ex(s[2], st, ctx)
            return None if st is None else st | {s[1]}
        if k in ("seq",):
            return self.seq(s[1], st, ctx)
        if k == "nop":
            return st
        if k == "if":
            st = self.ex(s[1], st, ctx)
            a = self.st(s[2], st, ctx)
            b = self.st(s[3], st, ctx) if s[3] is not None else st
            return _meet(a, b)
        if k == "ifchain":
            out = None
            first = True
            for c, body in s[1]:
                st = self.ex(c, st, ctx)
                o = self.st(body, st, ctx)
                out = o if first else _meet(out, o)
                first = False
            tail = self.st(s[2], st, ctx) if s[2] is not None else st
            return _meet(out, tail)
        if k == "cond":
            out = None
            first = True
            for c, body in s[1]:
                st = self.ex(c, st, ctx)
                o = self.st(body, st, ctx)
                out = o if first else _meet(out, o)
                first = False
            return out  # no match -> err
        if k == "while":
            st = self.ex(s[1], st, ctx)
            loop = {"breaks": [], "continues": []}
            self.st(s[2], st, dict(ctx, loop=loop))
            out = st
            for b in loop["breaks"]:
                out = _meet(out, b) if out is not None else b
            return out
        if k == "for":
            st = self.st(s[1], st, ctx)
            st = self.ex(s[2], st, ctx)
            loop = {"breaks": [], "continues": []}
            end = self.st(s[4], st, dict(ctx, loop=loop))
            step_in = end
            for c in loop["continues"]:
                step_in = c if step_in is None else step_in & c
            self.st(s[3], step_in, ctx)
            out = st
            for b in loop["breaks"]:
                out = _meet(out, b) if out is not None else b
            return out
        if k == "break":
            if ctx.get("loop") is not None:
                ctx["loop"]["breaks"].append(st)
            return None
        if k == "continue":
            if ctx.get("loop") is not None:
                ctx["loop"]["continues"].append(st)
            return None
        if k == "return":
            if s[1] is not None:
                self.ex(s[1], st, ctx)
            return None
        if k in ("approve", "reject", "err"):
            return None
        if k == "assert":
            for c in s[1]:
                st = self.ex(c, st, ctx)
            return st
        if k == "callstmt":
            return self.ex(["call", s[1], s[2]], st, ctx)
        if k == "abicall":
            st = self.ex(["call", s[1], s[2]], st, ctx)
            return None if st is None else st | {s[3]}
        if k == "itxn":
            for f, e in s[1]:
                st = self.ex(e, st, ctx)
            return st
        if k == "comment":
            return self.st(s[2], st, ctx) if s[2] is not None else st
        if k in ("dset",):
            return st
        if k == "pstore":
            return self.ex(s[2], st, ctx)
        # generic effect statements: evaluate operands in order
        for x in s[1:]:
            if isinstance(x, list):
                st = self.ex(x, st, ctx)
        return st

    def reachable(self):
        """Indices of subroutines reachable from the main routine through calls."""
        if getattr(self, "_reach", None) is not None:
            return self._reach
        r = self.r

        def calls(node, out):
            if isinstance(node, list) and node:
                if isinstance(node[0], str):
                    if node[0] in ("call", "callstmt", "abicall") and isinstance(node[1], int):
                        out.add(node[1])
                    for x in node[1:]:
                        calls(x, out)
                else:
                    for x in node:
                        calls(x, out)
        seen, work = set(), set()
        calls(r["main"], work)
        calls(r["final"], work)
        while work:
            k = work.pop()
            if k in seen or k >= len(r.get("subs", [])):
                continue
            seen.add(k)
            nxt = set()
            calls(r["subs"][k]["body"], nxt)
            if r["subs"][k].get("retexpr") is not None:
                calls(r["subs"][k]["retexpr"], nxt)
            work |= nxt - seen
        self._reach = seen
        return seen

    # ------------------------------------------------------------------ routines
    def run(self, track_kinds=("sv",), track_abi_main=True):
        r = self.r
        tracked = {d["id"] for d in r.get("vars", []) if d.get("kind", "sv") in track_kinds or (track_abi_main and d.get("kind") == "abi")}
        ctx = {"routine": "main", "tracked": tracked, "loop": None}
        self.called = set()
        self.has_dead_code = False
        st = self.seq(r["main"], frozenset(), ctx)
        self.ex(r["final"], st, ctx)
        # only routines called from *live* code are compiled (a call in dead code after Return/Break/Continue emits nothing):
        # follow the calls the analysis itself reached, transitively
        done = set()
        while self.called - done:
            k = min(self.called - done)
            done.add(k)
            if k >= len(r.get("subs", [])):
                continue
            s = r["subs"][k]
            tracked = {d["id"] for d in s.get("locals", []) if d.get("kind", "sv") in track_kinds}
            ctx = {"routine": "s%d" % k, "tracked": tracked, "loop": None}
            st = self.seq(s["body"], frozenset(), ctx)
            if s.get("retexpr") is not None:
                self.ex(s["retexpr"], st, ctx)
        return self.flagged


def may_read_unassigned(recipe):
    return Analysis(recipe).run()
