"""The repository's own tests as a workload: run them under vlib/suite_plugin.py (which records every program the real compiler
returns to a test) and hand the recorded programs to the offline judges.  What a test asserts is irrelevant here - a test that
fails or errors still contributes the programs it compiled; the oracle is the judge, applied to inputs the repository's authors chose.
"""
import glob
import json
import os
import shutil
import subprocess
import tempfile

from .pool import PY, VERIF, repo_dir

QUICK_FILES = ["pyteal/compiler/compiler_test.py", "pyteal/compiler/optimizer/optimizer_test.py", "tests/unit/compile_test.py", "pyteal/ast/router_test.py",
               "pyteal/ast/ecdsa_test.py", "pyteal/ast/pragma_test.py", "pyteal/ast/comment_test.py", "pyteal/ast/subroutine_test.py",
               "tests/unit/user_guide_test.py", "tests/unit/pass_by_ref_test.py", "tests/unit/pre_v6_test.py", "tests/unit/sourcemap_test.py",
               "tests/unit/sourcemap_rps_test.py", "tests/unit/sourcemap_monkey_unit_test.py"]
THOROUGH_FILES = QUICK_FILES + ["tests/unit/sourcemap_constructs311_test.py"]


def record(tier, timeout_s=1500):
    """Returns (records, stats).  records: distinct (mode, version, teal) programs with the tests that produced them."""
    repo = repo_dir()
    files = [f for f in (QUICK_FILES if tier == "quick" else THOROUGH_FILES) if os.path.exists(os.path.join(repo, f))]
    tmp = tempfile.mkdtemp(prefix="verif-suite-", dir=os.environ.get("VERIF_TMP", "/var/tmp"))
    stats = {"files": len(files), "pytest_exit": None, "raw_records": 0}
    try:
        env = dict(os.environ)
        env.update({"PYTHONPATH": repo + os.pathsep + VERIF, "VERIF_SUITE_LOG": os.path.join(tmp, "log"), "PYTHONDONTWRITEBYTECODE": "1", "PYTHONHASHSEED": "0"})
        cmd = [PY, "-m", "pytest", "-q", "-p", "no:cacheprovider", "-p", "vlib.suite_plugin", "-n", "2" if tier == "quick" else "6", "--timeout=900"] + files
        try:
            cp = subprocess.run(cmd, cwd=repo, env=env, timeout=timeout_s, stdout=subprocess.PIPE, stderr=subprocess.STDOUT, text=True)
            stats["pytest_exit"] = cp.returncode
            stats["pytest_tail"] = (cp.stdout or "").strip().split("\n")[-1][:200]
        except subprocess.TimeoutExpired:
            stats["pytest_exit"] = "timeout"
        recs = {}
        for p in sorted(glob.glob(os.path.join(tmp, "log.*"))):
            with open(p) as f:
                for line in f:
                    try:
                        r = json.loads(line)
                    except ValueError:
                        continue
                    stats["raw_records"] += 1
                    key = (r["mode"], r["version"], r["teal"])
                    if key in recs:
                        if len(recs[key]["tests"]) < 3 and r["test"] not in recs[key]["tests"]:
                            recs[key]["tests"].append(r["test"])
                    else:
                        r["tests"] = [r.pop("test")]
                        recs[key] = r
        out = [recs[k] for k in sorted(recs, key=lambda k: (str(k[0]), k[1] or 0, k[2]))]
        stats["distinct_programs"] = len(out)
        return out, stats
    finally:
        shutil.rmtree(tmp, ignore_errors=True)


def scratch_optimised(rec):
    """Was the scratch-slot optimisation on for this recorded compilation (explicitly, or by the v9+ default)?"""
    o = rec.get("optimize")
    ss = None if o is None else o[0]
    return ss is True or (ss is None and (rec.get("version") or 0) >= 9)
