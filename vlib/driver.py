"""Main-process driver: plan shards, run workers, classify against known findings, write evidence, exit code.

Exit codes: 0 held on everything explored; 1 violation (a line `VIOLATION property=<id> replay=<path>` per witness);
2 inconclusive (`INCONCLUSIVE property=<id> reason=...`), never folded into 0 or 1.
"""
import argparse
import hashlib
import importlib
import json
import os
import sys
import time
from collections import Counter

from . import pool

VERIF = pool.VERIF
EVDIR = os.environ.get("VERIF_EVIDENCE_DIR") or os.path.join(VERIF, "evidence")  # overridden only by the mutant self-test
KNOWN_FILE = os.path.join(VERIF, "known_findings.json")


def load_known(pid):
    try:
        with open(KNOWN_FILE) as f:
            data = json.load(f)
    except FileNotFoundError:
        return {}
    return {e["id"]: e for e in data.get("findings", []) if e.get("property") == pid and e.get("status") == "known"}


def write_evidence(pid, tier, seed, level, coverage, wall, violations, assumptions):
    os.makedirs(EVDIR, exist_ok=True)
    ev = {"property_id": pid, "tier": tier, "seed": seed, "level": level, "coverage": coverage,
          "assumptions": assumptions, "wall_s": round(wall, 2), "violations": violations}
    path = os.path.join(EVDIR, pid + ".json")
    tmp = path + ".tmp"
    with open(tmp, "w") as f:
        json.dump(ev, f, indent=1, sort_keys=True)
    os.replace(tmp, path)
    return path


def main(argv=None):
    ap = argparse.ArgumentParser()
    ap.add_argument("pid")
    ap.add_argument("--tier", default=os.environ.get("VERIF_TIER", "quick"), choices=["quick", "thorough"])
    ap.add_argument("--replay")
    ap.add_argument("--jobs", type=int, default=None)
    ap.add_argument("--seed", type=int, default=None)
    args = ap.parse_args(argv)
    pid = args.pid.upper()
    seed = args.seed if args.seed is not None else int(os.environ.get("VERIF_SEED", "0") or 0)
    mod = importlib.import_module("vlib.checks." + pid.lower())
    spec = mod.SPEC
    t0 = time.time()

    if args.replay:
        with open(args.replay) as f:
            case = json.load(f)
        res = pool.run_shards(pid, [{"replay": case, "seed": seed, "tier": args.tier}], timeout_s=900, jobs=1)
        sh, r, err = res[0]
        if err:
            print("INCONCLUSIVE property=%s reason=replay worker failed: %s" % (pid, err))
            return 2
        known = load_known(pid)
        bad = 0
        for v in r["violations"]:
            fid = mod.classify(v) if hasattr(mod, "classify") else None
            if fid in known:
                print("KNOWN-FINDING: property=%s %s" % (pid, known[fid]["what"]))
            else:
                bad += 1
                print("VIOLATION property=%s replay=%s" % (pid, args.replay))
                print("  kind=%s detail=%s" % (v.get("kind"), str(v.get("detail"))[:600]))
        if not bad:
            print("replay: property held on this case")
        return 1 if bad else 0

    shards = mod.plan(args.tier, seed)
    timeout_s = spec.get("shard_timeout", {}).get(args.tier, 1500 if args.tier == "quick" else 7200)
    results = pool.run_shards(pid, shards, timeout_s=timeout_s, jobs=args.jobs)

    evaluations = 0
    nontrivial = set()
    counters = Counter()
    samples = []
    violations = []
    knownc = Counter()
    extra = {}
    failed = []
    for sh, r, err in results:
        if err:
            failed.append(err)
            continue
        evaluations += r["evaluations"]
        nontrivial.update(r["nontrivial"])
        counters.update(r["counters"])
        knownc.update(r.get("known", {}))
        for s in r["samples"]:
            if len(samples) < 6:
                samples.append(s)
        violations.extend(r["violations"])
        for k, v in r.get("extra", {}).items():
            if isinstance(v, list):
                extra.setdefault(k, [])
                for x in v:
                    if x not in extra[k]:
                        extra[k].append(x)
            elif isinstance(v, dict):
                d = extra.setdefault(k, {})
                for kk, vv in v.items():
                    d[kk] = d.get(kk, 0) + vv if isinstance(vv, (int, float)) else vv
            else:
                extra[k] = v

    known = load_known(pid)
    new = []
    for v in violations:
        fid = mod.classify(v) if hasattr(mod, "classify") else None
        if fid in known:
            knownc[fid] += 1
        else:
            new.append(v)

    os.makedirs(os.path.join(EVDIR, "replay"), exist_ok=True)
    seen = set()
    lines = []
    for v in new:
        blob = json.dumps(v.get("case"), sort_keys=True, default=repr)
        sha = hashlib.sha256(blob.encode()).hexdigest()[:12]
        if sha in seen:
            continue
        seen.add(sha)
        if len(seen) > 10:
            break
        path = os.path.join(EVDIR, "replay", "%s-%s.json" % (pid, sha))
        with open(path, "w") as f:
            json.dump(v.get("case"), f, indent=1, sort_keys=True, default=repr)
        lines.append("VIOLATION property=%s replay=%s" % (pid, path))
        lines.append("  kind=%s detail=%s" % (v.get("kind"), str(v.get("detail"))[:600]))

    known_lines = []
    for fid, e in known.items():
        if knownc.get(fid):
            known_lines.append("KNOWN-FINDING: property=%s %s" % (pid, e["what"]))
        else:
            counters["known_finding_not_reproduced:" + fid] += 1

    wall = time.time() - t0
    coverage = {
        "evaluations": evaluations,
        "distinct_nontrivial": len(nontrivial),
        "rule": spec["rule"],
        "samples": samples,
        "counters": dict(sorted(counters.items())),
        "shards": len(shards),
        "shards_failed": len(failed),
        "known_findings_reproduced": {k: v for k, v in knownc.items() if k in known},
        "exhaustive": bool(spec.get("exhaustive", {}).get(args.tier, False)),
    }
    coverage.update(extra)
    min_eval = spec.get("min_evaluations", {}).get(args.tier, 1)
    reason = None
    if failed:
        reason = "%d of %d shards failed: %s" % (len(failed), len(shards), failed[0][:300].replace("\n", " | "))
    elif evaluations < min_eval or len(nontrivial) < 2:
        reason = "too few cases reached the deciding monitor (%d evaluations, %d non-trivial)" % (evaluations, len(nontrivial))
    else:
        for key in spec.get("must_reach", []):
            if not counters.get(key):
                reason = "deciding monitor counter %r is zero" % key
                break
    if not reason and not samples:
        reason = "no sample of an explored case was recorded"
    if reason:
        coverage["inconclusive_reason"] = reason
    # evidence must validate even when inconclusive
    cov_for_file = dict(coverage)
    if cov_for_file["evaluations"] < 1:
        cov_for_file["evaluations"] = 0
    write_evidence(pid, args.tier, seed, spec.get("level", "exploration"), cov_for_file, wall, len(seen), spec.get("assumptions", []))

    for l in known_lines:
        print(l)
    for l in lines:
        print(l)
    print("%s tier=%s seed=%d evaluations=%d distinct_nontrivial=%d violations=%d known=%s wall=%.1fs"
          % (pid, args.tier, seed, evaluations, len(nontrivial), len(seen), dict(coverage["known_findings_reproduced"]), wall))
    interesting = {k: v for k, v in counters.items() if not k.startswith("_")}
    print("  counters: " + json.dumps(dict(sorted(interesting.items())), default=str)[:3000])
    if lines:
        return 1
    if reason:
        print("INCONCLUSIVE property=%s reason=%s" % (pid, reason))
        return 2
    return 0
