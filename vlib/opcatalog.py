"""Catalogue of PyTeal's public expression constructors: one small program per opcode / field / construct family.

Each entry: (name, kind, mode, build) where kind is 'u' | 'b' | 'n' (type of the expression), mode 'app' | 'sig' | 'both',
build(pt) -> Expr.  wrap() turns an entry into a complete program.  Used by C04 (legality at every version, rejection below the
minimum version), C05 (stack/type discipline) and C20 (totality).  Worker-side: imports pyteal lazily through the `pt` argument.
"""


def _b(n=8):
    return lambda pt: pt.Bytes(bytes(range(1, n + 1)))


# Operand flipping (C05's operand-type probes): while an entry is being built with FLIP["k"] set, the k-th literal operand created
# through the catalogue's own I()/B() helpers is replaced by a literal of the other type.
FLIP = {"k": None, "n": 0}


def entries(pt):
    def I(n):
        FLIP["n"] += 1
        if FLIP["k"] is not None and FLIP["n"] == FLIP["k"]:
            return pt.Bytes("flipped operand")
        return pt.Int(n)

    def B(*a):
        FLIP["n"] += 1
        if FLIP["k"] is not None and FLIP["n"] == FLIP["k"]:
            return pt.Int(7)
        return pt.Bytes(*a)
    a0 = lambda: pt.Txn.application_args[0]  # noqa: E731
    acct = lambda: pt.Txn.sender()  # noqa: E731
    E = []

    def add(name, kind, mode, build):
        E.append((name, kind, mode, build))

    # ---- arithmetic / logic
    for name, f in [("Add", lambda: I(1) + I(2)), ("Minus", lambda: I(3) - I(2)), ("Mul", lambda: I(3) * I(2)), ("Div", lambda: I(3) / I(2)),
                    ("Mod", lambda: I(3) % I(2)), ("Lt", lambda: I(1) < I(2)), ("Gt", lambda: I(1) > I(2)), ("Le", lambda: I(1) <= I(2)),
                    ("Ge", lambda: I(1) >= I(2)), ("Eq", lambda: I(1) == I(2)), ("Neq", lambda: I(1) != I(2)), ("And", lambda: pt.And(I(1), I(2), I(3))),
                    ("Or", lambda: pt.Or(I(1), I(0), I(3))), ("Not", lambda: pt.Not(I(1))), ("BitAnd", lambda: I(1) & I(2)), ("BitOr", lambda: I(1) | I(2)),
                    ("BitXor", lambda: I(1) ^ I(2)), ("BitNot", lambda: ~I(1)), ("Exp", lambda: pt.Exp(I(2), I(3))), ("Shl", lambda: pt.ShiftLeft(I(1), I(2))),
                    ("Shr", lambda: pt.ShiftRight(I(8), I(2))), ("Sqrt", lambda: pt.Sqrt(I(9))), ("BitLen", lambda: pt.BitLen(I(9))),
                    ("BitLenB", lambda: pt.BitLen(B("ab"))), ("Len", lambda: pt.Len(B("abc"))), ("Btoi", lambda: pt.Btoi(B("a"))),
                    ("GetBit", lambda: pt.GetBit(I(5), I(1))), ("GetBitB", lambda: pt.GetBit(B("ab"), I(1))), ("GetByte", lambda: pt.GetByte(B("ab"), I(1))),
                    ("SetBitI", lambda: pt.SetBit(I(5), I(1), I(1))), ("ExtractUint16", lambda: pt.ExtractUint16(B("abcdefgh"), I(0))),
                    ("ExtractUint32", lambda: pt.ExtractUint32(B("abcdefgh"), I(0))), ("ExtractUint64", lambda: pt.ExtractUint64(B("abcdefgh"), I(0))),
                    ("WideRatio", lambda: pt.WideRatio([I(2), I(3)], [I(4)])), ("WideRatio3", lambda: pt.WideRatio([I(2), I(3), I(5)], [I(4), I(7)])),
                    ("Divw", lambda: pt.Divw(I(0), I(10), I(3))), ("BytesLt", lambda: pt.BytesLt(B("a"), B("b"))), ("BytesGt", lambda: pt.BytesGt(B("a"), B("b"))),
                    ("BytesLe", lambda: pt.BytesLe(B("a"), B("b"))), ("BytesGe", lambda: pt.BytesGe(B("a"), B("b"))), ("BytesEq", lambda: pt.BytesEq(B("a"), B("b"))),
                    ("BytesNeq", lambda: pt.BytesNeq(B("a"), B("b"))), ("EqB", lambda: B("a") == B("b")), ("IfExpr", lambda: pt.If(I(1), I(2), I(3))),
                    ("CondExpr", lambda: pt.Cond([I(0), I(2)], [I(1), I(3)]))]:
        add(name, "u", "both", (lambda f: lambda pt_: f())(f))
    for name, f in [("Concat", lambda: pt.Concat(B("a"), B("b"), B("c"))), ("Itob", lambda: pt.Itob(I(1))), ("Sha256", lambda: pt.Sha256(B("a"))),
                    ("Sha512_256", lambda: pt.Sha512_256(B("a"))), ("Keccak256", lambda: pt.Keccak256(B("a"))), ("Sha3_256", lambda: pt.Sha3_256(B("a"))),
                    ("SubstringImm", lambda: pt.Substring(B("abcdef"), I(1), I(3))), ("Substring3", lambda: pt.Substring(B("abcdef"), I(1), pt.Len(B("abc")))),
                    ("SubstringBig", lambda: pt.Substring(pt.BytesZero(I(300)), I(1), I(256))), ("ExtractImm", lambda: pt.Extract(B("abcdef"), I(1), I(3))),
                    ("Extract3", lambda: pt.Extract(B("abcdef"), I(1), pt.Len(B("abc")))), ("ExtractLen0", lambda: pt.Extract(B("abcdef"), I(1), I(0))),
                    ("SuffixImm", lambda: pt.Suffix(B("abcdef"), I(2))), ("SuffixDyn", lambda: pt.Suffix(B("abcdef"), pt.Len(B("ab")))),
                    ("SuffixBig", lambda: pt.Suffix(pt.BytesZero(I(300)), I(256))), ("SetBitB", lambda: pt.SetBit(B("ab"), I(1), I(1))),
                    ("SetByte", lambda: pt.SetByte(B("ab"), I(1), I(7))), ("BytesAdd", lambda: pt.BytesAdd(B("a"), B("b"))), ("BytesMinus", lambda: pt.BytesMinus(B("b"), B("a"))),
                    ("BytesMul", lambda: pt.BytesMul(B("a"), B("b"))), ("BytesDiv", lambda: pt.BytesDiv(B("a"), B("b"))), ("BytesMod", lambda: pt.BytesMod(B("a"), B("b"))),
                    ("BytesAnd", lambda: pt.BytesAnd(B("a"), B("b"))), ("BytesOr", lambda: pt.BytesOr(B("a"), B("b"))), ("BytesXor", lambda: pt.BytesXor(B("a"), B("b"))),
                    ("BytesNot", lambda: pt.BytesNot(B("a"))), ("BytesZero", lambda: pt.BytesZero(I(4))), ("BytesSqrt", lambda: pt.BytesSqrt(B("abcd"))),
                    ("Replace2", lambda: pt.Replace(B("abcdef"), I(1), B("xy"))), ("Replace3", lambda: pt.Replace(B("abcdef"), pt.Len(B("a")), B("xy"))),
                    ("Base64Std", lambda: pt.Base64Decode.std(B("YWJj"))), ("Base64Url", lambda: pt.Base64Decode.url(B("YWJj"))),
                    ("JsonString", lambda: pt.JsonRef.as_string(B('{"a":"b"}'), B("a"))), ("JsonObject", lambda: pt.JsonRef.as_object(B('{"a":{}}'), B("a"))),
                    ("Addr", lambda: pt.Addr("NY6DHEEFW73R2NUWY562U2NNKSKBKVYY5OOQFLD3M2II5RUNKRZDEGUGEA")), ("MethodSig", lambda: pt.MethodSignature("add(uint64,uint64)uint64")),
                    ("BytesHex", lambda: B("base16", "0xdeadbeef")), ("BytesB32", lambda: B("base32", "MFRGG")), ("BytesB64", lambda: B("base64", "YWJj")),
                    ("IfBytes", lambda: pt.If(I(1)).Then(B("a")).Else(B("b"))), ("EcAdd", lambda: pt.EcAdd(pt.EllipticCurve.BN254g1, B("a" * 64), B("b" * 64))),
                    ("EcScalarMul", lambda: pt.EcScalarMul(pt.EllipticCurve.BN254g1, B("a" * 64), B("b"))),
                    ("EcMultiScalarMul", lambda: pt.EcMultiScalarMul(pt.EllipticCurve.BLS12_381g1, B("a" * 96), B("b" * 32))),
                    ("EcMapTo", lambda: pt.EcMapTo(pt.EllipticCurve.BLS12_381g2, B("a" * 96)))]:
        add(name, "b", "both", (lambda f: lambda pt_: f())(f))
    add("JsonUint64", "u", "both", lambda pt_: pt.JsonRef.as_uint64(B('{"a":1}'), B("a")))
    add("EcPairingCheck", "u", "both", lambda pt_: pt.EcPairingCheck(pt.EllipticCurve.BN254g1, B("a" * 64), B("b" * 128)))
    add("EcSubgroupCheck", "u", "both", lambda pt_: pt.EcSubgroupCheck(pt.EllipticCurve.BN254g2, B("a" * 128)))
    add("Ed25519Verify", "u", "both", lambda pt_: pt.Ed25519Verify(B("d"), B("s" * 64), B("k" * 32)))
    add("Ed25519VerifyBare", "u", "both", lambda pt_: pt.Ed25519Verify_Bare(B("d"), B("s" * 64), B("k" * 32)))
    add("EcdsaVerifyK1", "u", "both", lambda pt_: pt.EcdsaVerify(pt.EcdsaCurve.Secp256k1, B("d" * 32), B("r" * 32), B("s" * 32), (B("x" * 32), B("y" * 32))))
    add("EcdsaVerifyR1", "u", "both", lambda pt_: pt.EcdsaVerify(pt.EcdsaCurve.Secp256r1, B("d" * 32), B("r" * 32), B("s" * 32), (B("x" * 32), B("y" * 32))))

    def ecdsa_decompress(pt_):
        mv = pt.EcdsaDecompress(pt.EcdsaCurve.Secp256k1, B("c" * 33))
        return mv.outputReducer(lambda x, y: pt.Len(pt.Concat(x, y)))
    add("EcdsaDecompress", "u", "both", ecdsa_decompress)

    def ecdsa_recover(pt_):
        mv = pt.EcdsaRecover(pt.EcdsaCurve.Secp256k1, B("d" * 32), I(1), B("r" * 32), B("s" * 32))
        return mv.outputReducer(lambda x, y: pt.Len(pt.Concat(x, y)))
    add("EcdsaRecover", "u", "both", ecdsa_recover)

    def ecdsa_verify_mv(pt_):
        return pt.EcdsaVerify(pt.EcdsaCurve.Secp256k1, B("d" * 32), B("r" * 32), B("s" * 32), pt.EcdsaDecompress(pt.EcdsaCurve.Secp256k1, B("c" * 33)))
    add("EcdsaVerifyDecompressed", "u", "both", ecdsa_verify_mv)

    def vrf(pt_):
        mv = pt.VrfVerify.algorand(B("m"), B("p" * 80), B("k" * 32))
        return pt.Seq(mv, pt.Len(mv.output_slots[0].load()) + mv.output_slots[1].load())
    add("VrfVerify", "u", "both", vrf)
    add("BlockSeed", "b", "both", lambda pt_: pt.Block.seed(I(1)))
    add("BlockTimestamp", "u", "both", lambda pt_: pt.Block.timestamp(I(1)))

    # ---- transaction fields, on every carrier
    for f in pt.TxnField:
        nm = f.arg_name
        kind = "u" if f.type_of() == pt.TealType.uint64 else "b"
        if f.is_array:
            add("Txn." + nm + "[1]", kind, "both", (lambda f: lambda pt_: pt.Txn.makeTxnaExpr(f, 1))(f))
            add("Txn." + nm + "[expr]", kind, "both", (lambda f: lambda pt_: pt.Txn.makeTxnaExpr(f, pt.Int(1) + pt.Int(0)))(f))
            add("Gtxn1." + nm + "[1]", kind, "both", (lambda f: lambda pt_: pt.Gtxn[1].makeTxnaExpr(f, 1))(f))
            add("Gtxn1." + nm + "[expr]", kind, "both", (lambda f: lambda pt_: pt.Gtxn[1].makeTxnaExpr(f, pt.Int(1) + pt.Int(0)))(f))
            add("GtxnE." + nm + "[1]", kind, "both", (lambda f: lambda pt_: pt.Gtxn[pt.Int(1) + pt.Int(0)].makeTxnaExpr(f, 1))(f))
            add("GtxnE." + nm + "[expr]", kind, "both", (lambda f: lambda pt_: pt.Gtxn[pt.Int(1) + pt.Int(0)].makeTxnaExpr(f, pt.Int(1) + pt.Int(0)))(f))
            add("InnerTxn." + nm + "[1]", kind, "app", (lambda f: lambda pt_: pt.InnerTxn.makeTxnaExpr(f, 1))(f))
            add("InnerTxn." + nm + "[expr]", kind, "app", (lambda f: lambda pt_: pt.InnerTxn.makeTxnaExpr(f, pt.Int(1) + pt.Int(0)))(f))
            add("Gitxn0." + nm + "[1]", kind, "app", (lambda f: lambda pt_: pt.Gitxn[0].makeTxnaExpr(f, 1))(f))
            add("Gitxn0." + nm + "[expr]", kind, "app", (lambda f: lambda pt_: pt.Gitxn[0].makeTxnaExpr(f, pt.Int(1) + pt.Int(0)))(f))
        else:
            add("Txn." + nm, kind, "both", (lambda f: lambda pt_: pt.Txn.makeTxnExpr(f))(f))
            add("Gtxn1." + nm, kind, "both", (lambda f: lambda pt_: pt.Gtxn[1].makeTxnExpr(f))(f))
            add("GtxnE." + nm, kind, "both", (lambda f: lambda pt_: pt.Gtxn[pt.Int(1) + pt.Int(0)].makeTxnExpr(f))(f))
            add("InnerTxn." + nm, kind, "app", (lambda f: lambda pt_: pt.InnerTxn.makeTxnExpr(f))(f))
            add("Gitxn0." + nm, kind, "app", (lambda f: lambda pt_: pt.Gitxn[0].makeTxnExpr(f))(f))

        def setf(pt_, f=f, kind=kind):
            val = pt.Int(1) if kind == "u" else pt.Bytes(b"\x01" * 32)
            if f.is_array:
                val = [val]
            return pt.Seq(pt.InnerTxnBuilder.Begin(), pt.InnerTxnBuilder.SetField(f, val), pt.InnerTxnBuilder.Submit())
        add("itxn_field." + nm, "n", "app", setf)
    add("TxnArrayLength", "u", "both", lambda pt_: pt.Txn.application_args.length() + pt.Txn.accounts.length() + pt.Txn.assets.length() + pt.Txn.applications.length())
    add("GtxnBig", "u", "both", lambda pt_: pt.Gtxn[15].fee())

    # ---- globals
    for gf in pt.GlobalField:
        kind = "u" if gf.type_of() == pt.TealType.uint64 else "b"
        add("Global." + gf.arg_name, kind, "both", (lambda gf: lambda pt_: pt.Global(gf))(gf))

    # ---- logic-sig arguments
    add("Arg0", "b", "sig", lambda pt_: pt.Arg(0))
    add("Arg255", "b", "sig", lambda pt_: pt.Arg(255))
    add("ArgExpr", "b", "sig", lambda pt_: pt.Arg(I(1) + I(0)))

    # ---- application state and parameters
    add("App.id", "u", "app", lambda pt_: pt.App.id())
    add("App.optedIn", "u", "app", lambda pt_: pt.App.optedIn(acct(), I(0)))
    add("App.localGet", "u", "app", lambda pt_: pt.Btoi(pt.Itob(pt.App.localGet(acct(), B("k")))))
    add("App.globalGet", "u", "app", lambda pt_: pt.Btoi(pt.Itob(pt.App.globalGet(B("k")))))
    add("App.localPut", "n", "app", lambda pt_: pt.App.localPut(acct(), B("k"), I(1)))
    add("App.globalPut", "n", "app", lambda pt_: pt.App.globalPut(B("k"), B("v")))
    add("App.localDel", "n", "app", lambda pt_: pt.App.localDel(acct(), B("k")))
    add("App.globalDel", "n", "app", lambda pt_: pt.App.globalDel(B("k")))

    def mv_has(make):
        def f(pt_):
            mv = make()
            return pt.Seq(mv, mv.hasValue())
        return f
    add("App.localGetEx", "u", "app", mv_has(lambda: pt.App.localGetEx(acct(), I(0), B("k"))))
    add("App.globalGetEx", "u", "app", mv_has(lambda: pt.App.globalGetEx(I(0), B("k"))))
    add("Balance", "u", "app", lambda pt_: pt.Balance(acct()))
    add("BalanceIdx", "u", "app", lambda pt_: pt.Balance(I(0)))
    add("MinBalance", "u", "app", lambda pt_: pt.MinBalance(acct()))
    for nm in ["balance", "frozen"]:
        add("AssetHolding." + nm, "u", "app", mv_has((lambda nm: lambda: getattr(pt.AssetHolding, nm)(acct(), I(1)))(nm)))
    for nm in ["total", "decimals", "defaultFrozen", "unitName", "name", "url", "metadataHash", "manager", "reserve", "freeze", "clawback", "creator"]:
        add("AssetParam." + nm, "u", "app", mv_has((lambda nm: lambda: getattr(pt.AssetParam, nm)(I(1)))(nm)))
    for nm in ["approvalProgram", "clearStateProgram", "globalNumUint", "globalNumByteSlice", "localNumUint", "localNumByteSlice", "extraProgramPages",
               "creator", "address"]:
        add("AppParam." + nm, "u", "app", mv_has((lambda nm: lambda: getattr(pt.AppParam, nm)(I(1)))(nm)))
    for nm in ["balance", "minBalance", "authAddr", "totalNumUint", "totalNumByteSlice", "totalExtraAppPages", "totalAppsCreated", "totalAppsOptedIn",
               "totalAssetsCreated", "totalAssets", "totalBoxes", "totalBoxBytes"]:
        add("AccountParam." + nm, "u", "app", mv_has((lambda nm: lambda: getattr(pt.AccountParam, nm)(acct()))(nm)))
    for nm in ["balance", "incentiveEligible"]:
        if hasattr(pt.VoterParam, nm):
            add("VoterParam." + nm, "u", "app", mv_has((lambda nm: lambda: getattr(pt.VoterParam, nm)(acct()))(nm)))
    add("OnlineStake", "u", "app", lambda pt_: pt.OnlineStake())
    add("MiMC", "b", "both", lambda pt_: pt.MiMC(__import__("pyteal.ast.mimc", fromlist=["x"]).MimcConfig.bn254mp110, B("a" * 32)))
    add("Log", "n", "app", lambda pt_: pt.Log(B("x")))
    add("GeneratedID", "u", "app", lambda pt_: pt.GeneratedID(0))
    add("GeneratedIDExpr", "u", "app", lambda pt_: pt.GeneratedID(I(0) + I(0)))
    add("ImportScratch", "u", "app", lambda pt_: pt.Btoi(pt.Itob(pt.ImportScratchValue(0, 3))))
    add("ImportScratchExpr", "u", "app", lambda pt_: pt.Btoi(pt.Itob(pt.ImportScratchValue(I(0) + I(0), 3))))
    add("ImportScratchExpr2", "u", "app", lambda pt_: pt.Btoi(pt.Itob(pt.ImportScratchValue(I(0) + I(0), I(3) + I(0)))))
    # boxes
    add("BoxCreate", "u", "app", lambda pt_: pt.BoxCreate(B("b"), I(8)))
    add("BoxDelete", "u", "app", lambda pt_: pt.BoxDelete(B("b")))
    add("BoxExtract", "b", "app", lambda pt_: pt.BoxExtract(B("b"), I(0), I(2)))
    add("BoxReplace", "n", "app", lambda pt_: pt.BoxReplace(B("b"), I(0), B("xy")))
    add("BoxLen", "u", "app", mv_has(lambda: pt.BoxLen(B("b"))))
    add("BoxGet", "u", "app", mv_has(lambda: pt.BoxGet(B("b"))))
    add("BoxPut", "n", "app", lambda pt_: pt.BoxPut(B("b"), B("12345678")))
    add("BoxSplice", "n", "app", lambda pt_: pt.BoxSplice(B("b"), I(0), I(1), B("z")))
    add("BoxResize", "n", "app", lambda pt_: pt.BoxResize(B("b"), I(9)))
    # inner transactions
    add("ItxnExecute", "n", "app", lambda pt_: pt.InnerTxnBuilder.Execute({pt.TxnField.type_enum: pt.TxnType.Payment, pt.TxnField.receiver: acct(), pt.TxnField.amount: I(1)}))
    add("ItxnNext", "n", "app", lambda pt_: pt.Seq(pt.InnerTxnBuilder.Begin(), pt.InnerTxnBuilder.SetField(pt.TxnField.type_enum, pt.TxnType.Payment), pt.InnerTxnBuilder.Next(),
                                                    pt.InnerTxnBuilder.SetField(pt.TxnField.type_enum, pt.TxnType.Payment), pt.InnerTxnBuilder.Submit()))
    add("ItxnExecuteArrays", "n", "app", lambda pt_: pt.InnerTxnBuilder.Execute({pt.TxnField.type_enum: pt.TxnType.ApplicationCall, pt.TxnField.application_id: I(5),
                                                                                 pt.TxnField.application_args: [B("a"), B("b")], pt.TxnField.accounts: [acct()],
                                                                                 pt.TxnField.assets: [I(1)], pt.TxnField.applications: [I(2)]}))
    add("OpUpExplicit", "n", "app", lambda pt_: pt.OpUp(pt.OpUpMode.Explicit, I(1)).ensure_budget(I(1000)))
    add("OpUpOnCall", "n", "app", lambda pt_: pt.OpUp(pt.OpUpMode.OnCall).ensure_budget(I(1000)))
    add("OpUpMaximize", "n", "app", lambda pt_: pt.OpUp(pt.OpUpMode.OnCall).maximize_budget(I(3000)))

    # ---- scratch
    def sv(pt_):
        v = pt.ScratchVar(pt.TealType.uint64)
        return pt.Seq(v.store(I(1)), v.load())
    add("ScratchVar", "u", "both", sv)

    def sv_id(pt_):
        v = pt.ScratchVar(pt.TealType.uint64, 255)
        return pt.Seq(v.store(I(1)), v.load() + v.index())
    add("ScratchVar255", "u", "both", sv_id)

    def dsv(pt_):
        v = pt.ScratchVar(pt.TealType.uint64)
        d = pt.DynamicScratchVar(pt.TealType.uint64)
        return pt.Seq(v.store(I(1)), d.set_index(v), d.store(d.load() + I(1)), v.load())
    add("DynamicScratchVar", "u", "both", dsv)

    def slot_dyn(pt_):
        s = pt.ScratchSlot()
        return pt.Seq(pt.ScratchStore(None, I(1), pt.ScratchIndex(s)), pt.ScratchLoad(None, pt.TealType.uint64, pt.ScratchIndex(s)))
    add("ScratchIndexed", "u", "both", slot_dyn)

    # ---- control
    add("SeqIfElse", "n", "both", lambda pt_: pt.If(I(1)).Then(pt.Pop(I(1))).ElseIf(I(2)).Then(pt.Pop(I(2))).Else(pt.Pop(I(3))))

    def loop_while(pt_):
        i = pt.ScratchVar(pt.TealType.uint64)
        return pt.Seq(i.store(I(0)), pt.While(i.load() < I(3)).Do(pt.Seq(i.store(i.load() + I(1)), pt.If(i.load() == I(2)).Then(pt.Break()))))
    add("While", "n", "both", loop_while)

    def loop_for(pt_):
        i = pt.ScratchVar(pt.TealType.uint64)
        return pt.For(i.store(I(0)), i.load() < I(3), i.store(i.load() + I(1))).Do(pt.If(i.load() == I(1)).Then(pt.Continue()))
    add("For", "n", "both", loop_for)
    add("Assert", "n", "both", lambda pt_: pt.Assert(I(1), I(2), comment="two"))
    add("CondStmt", "n", "both", lambda pt_: pt.Cond([I(0), pt.Pop(I(2))], [I(1), pt.Pop(I(3))]))
    add("Nonce", "u", "both", lambda pt_: pt.Nonce("base64", "YWJj", I(1)))
    add("Comment", "n", "both", lambda pt_: pt.Comment("hello", pt.Pop(I(1))))
    add("PragmaOk", "u", "both", lambda pt_: pt.Pragma(I(1), compiler_version=">=0.0.1"))
    add("ErrInBranch", "n", "both", lambda pt_: pt.If(I(0)).Then(pt.Err()))
    add("ApproveInBranch", "n", "both", lambda pt_: pt.If(I(0)).Then(pt.Approve()))
    add("RejectInBranch", "n", "both", lambda pt_: pt.If(I(0)).Then(pt.Reject()))
    add("ReturnInBranch", "n", "both", lambda pt_: pt.If(I(0)).Then(pt.Return(I(1))))
    add("TmplInt", "u", "both", lambda pt_: pt.Tmpl.Int("TMPL_I"))
    add("TmplBytes", "b", "both", lambda pt_: pt.Tmpl.Bytes("TMPL_B"))
    add("TmplAddr", "b", "both", lambda pt_: pt.Tmpl.Addr("TMPL_A"))
    add("EnumInts", "u", "both", lambda pt_: pt.OnComplete.OptIn + pt.TxnType.AssetTransfer)

    # ---- subroutines
    def sub_u(pt_):
        @pt.Subroutine(pt.TealType.uint64)
        def f(x, y):
            return x + y
        return f(I(1), I(2))
    add("Subroutine", "u", "both", sub_u)

    def sub_rec(pt_):
        @pt.Subroutine(pt.TealType.uint64)
        def fact(n):
            t = pt.ScratchVar(pt.TealType.uint64)
            return pt.Seq(t.store(n), pt.If(n <= I(1)).Then(I(1)).Else(fact(n - I(1)) * t.load()))
        return fact(I(4))
    add("SubroutineRecursive", "u", "both", sub_rec)

    def sub_ref(pt_):
        @pt.Subroutine(pt.TealType.none)
        def bump(v: pt.ScratchVar):
            return v.store(v.load() + I(1))
        x = pt.ScratchVar(pt.TealType.uint64)
        return pt.Seq(x.store(I(1)), bump(x), x.load())
    add("SubroutineByRef", "u", "both", sub_ref)

    def sub_abi(pt_):
        @pt.ABIReturnSubroutine
        def add2(a: pt.abi.Uint64, b: pt.abi.Uint16, *, output: pt.abi.Uint64):
            return output.set(a.get() + b.get())
        x, y, z = pt.abi.Uint64(), pt.abi.Uint16(), pt.abi.Uint64()
        return pt.Seq(x.set(1), y.set(2), add2(x, y).store_into(z), z.get())
    add("ABIReturnSubroutine", "u", "both", sub_abi)

    def abi_tuple(pt_):
        t = pt.abi.make(pt.abi.Tuple3[pt.abi.Uint8, pt.abi.DynamicArray[pt.abi.Bool], pt.abi.String])
        a, b, c = pt.abi.Uint8(), pt.abi.make(pt.abi.DynamicArray[pt.abi.Bool]), pt.abi.String()
        b0, b1 = pt.abi.Bool(), pt.abi.Bool()
        return pt.Seq(a.set(7), b0.set(True), b1.set(False), b.set([b0, b1, b0]), c.set("hi"), t.set(a, b, c), t[1].use(lambda v: v[2].use(lambda e: e.get())))
    add("ABITuple", "u", "both", abi_tuple)

    return E


def wrap(pt, entry):
    name, kind, mode, build = entry
    e = build(pt)
    if kind == "n":
        return pt.Seq(e, pt.Int(1))
    # consume the value with an opcode of the type PyTeal itself declares for it, so that a wrong declaration (a field or
    # constructor typed uint64 that yields bytes, or the reverse) becomes visible to the type monitors of C05
    t = e.type_of()
    if t == pt.TealType.uint64:
        return pt.Seq(pt.Pop(pt.Itob(e)), pt.Int(1))
    if t == pt.TealType.bytes:
        return pt.Seq(pt.Pop(pt.Len(e)), pt.Int(1))
    return pt.Seq(pt.Pop(e), pt.Int(1))


def count_literals(pt, entry):
    """Number of literal operands the entry creates through the catalogue's I()/B() helpers (None when it cannot be built)."""
    FLIP["k"], FLIP["n"] = None, 0
    try:
        entry[3](pt)
    except Exception:
        return None
    return FLIP["n"]


def wrap_flipped(pt, entry, k):
    """wrap(entry) with its k-th literal operand (1-based) of the other type.  Raises whatever PyTeal raises."""
    FLIP["k"], FLIP["n"] = k, 0
    try:
        return wrap(pt, entry)
    finally:
        FLIP["k"], FLIP["n"] = None, 0
