"""Subprocess worker pool: one fresh interpreter per shard, per-shard timeout, JSON results.

Never multiprocessing.Pool (hangs when a child dies).  Workers import the repository from VERIF_REPO
(default /repo) so that checks always run against the current working tree.
"""
import json
import os
import subprocess
import sys
import tempfile
import time
from concurrent.futures import ThreadPoolExecutor

VERIF = os.path.dirname(os.path.dirname(os.path.abspath(__file__)))
PY = os.environ.get("VERIF_PYTHON", "/venv/bin/python")


def repo_dir():
    return os.environ.get("VERIF_REPO", "/repo")


def worker_env(extra=None):
    env = dict(os.environ)
    env["PYTHONPATH"] = repo_dir() + os.pathsep + VERIF
    env.setdefault("PYTHONHASHSEED", "0")
    env["PYTEAL_VERIF"] = "1"
    env["PYTHONDONTWRITEBYTECODE"] = "1"
    if extra:
        env.update(extra)
    return env


def run_shards(check_id, shards, timeout_s, jobs=None, env_extra=None):
    """Run every shard descriptor in its own process.  Returns list of (shard, result|None, err|None)."""
    jobs = jobs or min(16, os.cpu_count() or 4)
    tmp = tempfile.mkdtemp(prefix="verif-%s-" % check_id, dir=os.environ.get("VERIF_TMP", "/var/tmp"))
    results = [None] * len(shards)

    def one(i):
        sh = shards[i]
        inp = os.path.join(tmp, "in%d.json" % i)
        outp = os.path.join(tmp, "out%d.json" % i)
        with open(inp, "w") as f:
            json.dump(sh, f)
        env = worker_env(env_extra)
        if isinstance(sh, dict) and sh.get("env"):
            env.update(sh["env"])
        t0 = time.time()
        try:
            cp = subprocess.run([PY, "-m", "vlib.worker", check_id, inp, outp], cwd=VERIF, env=env, timeout=timeout_s,
                                stdout=subprocess.PIPE, stderr=subprocess.PIPE, text=True)
        except subprocess.TimeoutExpired:
            return (sh, None, "timeout after %ds" % timeout_s)
        if cp.returncode != 0 or not os.path.exists(outp):
            return (sh, None, "worker exit %d: %s" % (cp.returncode, (cp.stderr or "")[-1500:]))
        try:
            with open(outp) as f:
                res = json.load(f)
        except Exception as e:
            return (sh, None, "bad worker output: %r" % e)
        res["_wall"] = time.time() - t0
        return (sh, res, None)

    try:
        with ThreadPoolExecutor(max_workers=jobs) as ex:
            for i, r in enumerate(ex.map(one, range(len(shards)))):
                results[i] = r
    finally:
        import shutil
        shutil.rmtree(tmp, ignore_errors=True)
    return results
