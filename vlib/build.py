"""recipe -> fresh PyTeal objects.  The only module that touches PyTeal constructors for recipe programs.

build(recipe) is a deterministic function of the recipe on every evaluation: PyTeal evaluates a subroutine's
Python body once per calling convention and again when it probes type_of()/has_return(), so nothing random
may happen inside a body.
"""
import pyteal as pt

T = {"u": pt.TealType.uint64, "b": pt.TealType.bytes, "n": pt.TealType.none, "a": pt.TealType.anytype}

BINOPS = {
    "+": lambda a, b: a + b, "-": lambda a, b: a - b, "*": lambda a, b: a * b, "/": lambda a, b: a / b, "%": lambda a, b: a % b,
    "<": lambda a, b: a < b, ">": lambda a, b: a > b, "<=": lambda a, b: a <= b, ">=": lambda a, b: a >= b,
    "==": lambda a, b: a == b, "!=": lambda a, b: a != b, "&": lambda a, b: a & b, "|": lambda a, b: a | b,
    "^": lambda a, b: a ^ b, "shl": lambda a, b: pt.ShiftLeft(a, b), "shr": lambda a, b: pt.ShiftRight(a, b),
    "exp": lambda a, b: pt.Exp(a, b), "&&": lambda a, b: pt.And(a, b), "||": lambda a, b: pt.Or(a, b),
}
BBIN = {"b+": pt.BytesAdd, "b-": pt.BytesMinus, "b*": pt.BytesMul, "b/": pt.BytesDiv, "b%": pt.BytesMod, "b|": pt.BytesOr,
        "b&": pt.BytesAnd, "b^": pt.BytesXor}
BCMP = {"b<": pt.BytesLt, "b>": pt.BytesGt, "b<=": pt.BytesLe, "b>=": pt.BytesGe, "b==": pt.BytesEq, "b!=": pt.BytesNeq}
NARY = {"add": pt.Add, "mul": pt.Mul, "and": pt.And, "or": pt.Or, "concat": pt.Concat}
_TXNFIELD = {f.arg_name: f for f in pt.TxnField}
_GLOBAL = {
    "MinTxnFee": pt.Global.min_txn_fee, "MinBalance": pt.Global.min_balance, "MaxTxnLife": pt.Global.max_txn_life,
    "ZeroAddress": pt.Global.zero_address, "GroupSize": pt.Global.group_size, "LogicSigVersion": pt.Global.logic_sig_version,
    "Round": pt.Global.round, "LatestTimestamp": pt.Global.latest_timestamp,
    "CurrentApplicationID": pt.Global.current_application_id, "CreatorAddress": pt.Global.creator_address,
    "CurrentApplicationAddress": pt.Global.current_application_address, "GroupID": pt.Global.group_id,
    "OpcodeBudget": pt.Global.opcode_budget, "CallerApplicationID": pt.Global.caller_app_id,
    "CallerApplicationAddress": pt.Global.caller_app_address,
}
_ABI = {"uint64": pt.abi.Uint64, "uint32": pt.abi.Uint32, "uint16": pt.abi.Uint16, "uint8": pt.abi.Uint8, "byte": pt.abi.Byte,
        "bool": pt.abi.Bool, "string": pt.abi.String}


def txn_expr(obj, field, index=None):
    f = _TXNFIELD[field]
    if index is None:
        return obj.makeTxnExpr(f)
    return obj.makeTxnaExpr(f, index)


class Scope:
    """Variables visible while building one routine body."""

    def __init__(self, gvars, params=None, pdefs=None, locals_=None, output=None):
        self.g = gvars
        self.params = params or []
        self.pdefs = pdefs or []
        self.l = locals_ or {}
        self.output = output

    def var(self, vid):
        if vid == "output" and self.output is not None:
            return ("abi", self.output)
        if vid in self.l:
            return self.l[vid]
        return self.g[vid]


def make_var(d):
    kind = d.get("kind", "sv")
    if kind == "sv":
        if d.get("slot") is not None:
            return ("sv", pt.ScratchVar(T[d["t"]], d["slot"]))
        return ("sv", pt.ScratchVar(T[d["t"]]))
    if kind == "abi":
        return ("abi", _ABI[d["t"]]())
    if kind == "dyn":
        return ("dyn", pt.DynamicScratchVar(T[d["t"]]))
    raise ValueError(kind)


STR_LITERALS = [False]  # set by a check around one compilation


class Builder:
    def __init__(self, recipe):
        self.r = recipe
        self.gvars = {d["id"]: make_var(d) for d in recipe.get("vars", [])}
        self.subs = []
        for k, s in enumerate(recipe.get("subs", [])):
            self.subs.append(self.make_sub(k, s))

    # ------------------------------------------------------------------ subroutines
    def make_sub(self, k, s):
        b = self
        names = ["a%d" % i for i in range(len(s["params"]))]
        ret = s["ret"]
        is_abi = ret.startswith("abi:") or s.get("abi_decl")

        def impl(*args, **kw):
            locals_ = {l["id"]: make_var(l) for l in s.get("locals", [])}
            sc = Scope(b.gvars, list(args), s["params"], locals_, kw.get("output"))
            body = [b.st(x, sc) for x in s["body"]]
            if s.get("retexpr") is not None:
                body.append(b.ex(s["retexpr"], sc))
            if not body:
                body = [pt.Seq()]
            return pt.Seq(*body)

        sig = ", ".join(names + (["*", "output"] if ret.startswith("abi:") else []))
        call = ", ".join(names + (["output=output"] if ret.startswith("abi:") else []))
        ns = {"impl": impl}
        exec("def %s(%s):\n    return impl(%s)\n" % (s["name"], sig, call), ns)
        f = ns[s["name"]]
        ann = {}
        for n, p in zip(names, s["params"]):
            if p["k"] == "ref":
                ann[n] = pt.ScratchVar
            elif p["k"] == "abi":
                ann[n] = _ABI[p["t"]]
            elif is_abi:
                ann[n] = pt.Expr
        if ret.startswith("abi:"):
            ann["output"] = _ABI[ret[4:]]
        f.__annotations__ = ann
        if ret.startswith("abi:"):
            return pt.ABIReturnSubroutine(f)
        return pt.Subroutine(T[ret], name=s.get("label"))(f)

    # ------------------------------------------------------------------ expressions
    def ex(self, e, sc):
        op = e[0]
        return getattr(self, "e_" + op)(e, sc)

    def e_int(self, e, sc):
        return pt.Int(e[1])

    def e_bytes(self, e, sc):
        raw = bytes.fromhex(e[1])
        if STR_LITERALS[0]:
            # the same constant written as a Python str literal (printable text only: escaping is C13's subject)
            try:
                text = raw.decode("utf-8")
            except UnicodeDecodeError:
                text = None
            if text is not None and text and all(ch.isprintable() and ch not in '"\\' for ch in text):
                return pt.Bytes(text)
        return pt.Bytes(raw)

    def e_bin(self, e, sc):
        return BINOPS[e[1]](self.ex(e[2], sc), self.ex(e[3], sc))

    def e_beq(self, e, sc):
        return self.ex(e[1], sc) == self.ex(e[2], sc)

    def e_bneq(self, e, sc):
        return self.ex(e[1], sc) != self.ex(e[2], sc)

    def e_bcmp(self, e, sc):
        return BCMP[e[1]](self.ex(e[2], sc), self.ex(e[3], sc))

    def e_bbin(self, e, sc):
        return BBIN[e[1]](self.ex(e[2], sc), self.ex(e[3], sc))

    def e_not(self, e, sc):
        return pt.Not(self.ex(e[1], sc))

    def e_bitnot(self, e, sc):
        return pt.BitwiseNot(self.ex(e[1], sc))

    def e_len(self, e, sc):
        return pt.Len(self.ex(e[1], sc))

    def e_btoi(self, e, sc):
        return pt.Btoi(self.ex(e[1], sc))

    def e_itob(self, e, sc):
        return pt.Itob(self.ex(e[1], sc))

    def e_sqrt(self, e, sc):
        return pt.Sqrt(self.ex(e[1], sc))

    def e_bitlen(self, e, sc):
        return pt.BitLen(self.ex(e[1], sc))

    def e_bnot(self, e, sc):
        return pt.BytesNot(self.ex(e[1], sc))

    def e_bsqrt(self, e, sc):
        return pt.BytesSqrt(self.ex(e[1], sc))

    def e_sha256(self, e, sc):
        return pt.Sha256(self.ex(e[1], sc))

    def e_bzero(self, e, sc):
        return pt.BytesZero(self.ex(e[1], sc))

    def e_nary(self, e, sc):
        return NARY[e[1]](*[self.ex(x, sc) for x in e[2]])

    def e_getbit(self, e, sc):
        return pt.GetBit(self.ex(e[1], sc), self.ex(e[2], sc))

    def e_getbyte(self, e, sc):
        return pt.GetByte(self.ex(e[1], sc), self.ex(e[2], sc))

    def e_setbit(self, e, sc):
        return pt.SetBit(self.ex(e[1], sc), self.ex(e[2], sc), self.ex(e[3], sc))

    def e_setbyte(self, e, sc):
        return pt.SetByte(self.ex(e[1], sc), self.ex(e[2], sc), self.ex(e[3], sc))

    def e_extractu(self, e, sc):
        f = {16: pt.ExtractUint16, 32: pt.ExtractUint32, 64: pt.ExtractUint64}[e[1]]
        return f(self.ex(e[2], sc), self.ex(e[3], sc))

    def e_substr(self, e, sc):
        return pt.Substring(self.ex(e[1], sc), self.ex(e[2], sc), self.ex(e[3], sc))

    def e_extract(self, e, sc):
        return pt.Extract(self.ex(e[1], sc), self.ex(e[2], sc), self.ex(e[3], sc))

    def e_suffix(self, e, sc):
        return pt.Suffix(self.ex(e[1], sc), self.ex(e[2], sc))

    def e_load(self, e, sc):
        kind, v = sc.var(e[1])
        if kind == "abi":
            return v.get()
        return v.load()

    def e_dload(self, e, sc):
        return sc.var(e[1])[1].load()

    def e_param(self, e, sc):
        return sc.params[e[1]]

    def e_pload(self, e, sc):
        return sc.params[e[1]].load()

    def e_pget(self, e, sc):
        return sc.params[e[1]].get()

    def e_pragma(self, e, sc):
        return pt.Pragma(self.ex(e[1], sc), compiler_version=e[2] if len(e) > 2 else ">=0.0.1")

    def e_ifx(self, e, sc):
        if e[-1] == "fn" or (len(e) > 4 and e[4] == "fn"):
            return pt.If(self.ex(e[1], sc), self.ex(e[2], sc), self.ex(e[3], sc))
        return pt.If(self.ex(e[1], sc)).Then(self.ex(e[2], sc)).Else(self.ex(e[3], sc))

    def e_condx(self, e, sc):
        return pt.Cond(*[[self.ex(c, sc), self.ex(v, sc)] for c, v in e[1]])

    def e_seqx(self, e, sc):
        return pt.Seq(*[self.st(s, sc) for s in e[1]], self.ex(e[2], sc))

    def e_call(self, e, sc):
        return self.subs[e[1]](*self.args(e[1], e[2], sc))

    def args(self, k, args, sc):
        out = []
        for p, a in zip(self.r["subs"][k]["params"], args):
            if a[0] == "refparam":
                out.append(sc.params[a[1]])
            elif p["k"] in ("ref", "abi"):
                out.append(sc.var(a[1])[1])
            else:
                out.append(self.ex(a, sc))
        return out

    def e_txn(self, e, sc):
        return txn_expr(pt.Txn, e[1])

    def e_txna(self, e, sc):
        return txn_expr(pt.Txn, e[1], e[2])

    def e_txnas(self, e, sc):
        return txn_expr(pt.Txn, e[1], self.ex(e[2], sc))

    def e_gtxn(self, e, sc):
        return txn_expr(pt.Gtxn[e[1]], e[2])

    def e_gtxna(self, e, sc):
        return txn_expr(pt.Gtxn[e[1]], e[2], e[3])

    def e_global(self, e, sc):
        return _GLOBAL[e[1]]()

    def e_arg(self, e, sc):
        return pt.Arg(e[1])

    def e_gget(self, e, sc):
        return pt.App.globalGet(self.ex(e[1], sc))

    def e_gex(self, e, sc):
        mv = pt.App.globalGetEx(pt.Int(0), self.ex(e[1], sc))
        return pt.Seq(mv, pt.If(mv.hasValue()).Then(mv.value()).Else(self.ex(e[2], sc)))

    def e_lget(self, e, sc):
        return pt.App.localGet(self.ex(e[1], sc), self.ex(e[2], sc))

    # ------------------------------------------------------------------ statements
    def st(self, s, sc):
        return getattr(self, "s_" + s[0])(s, sc)

    def s_store(self, s, sc):
        kind, v = sc.var(s[1])
        if kind == "abi":
            return v.set(self.ex(s[2], sc))
        return v.store(self.ex(s[2], sc))

    def s_dset(self, s, sc):
        return sc.var(s[1])[1].set_index(sc.var(s[2])[1])

    def s_dstore(self, s, sc):
        return sc.var(s[1])[1].store(self.ex(s[2], sc))

    def s_pstore(self, s, sc):
        return sc.params[s[1]].store(self.ex(s[2], sc))

    def s_log(self, s, sc):
        return pt.Log(self.ex(s[1], sc))

    def s_gput(self, s, sc):
        return pt.App.globalPut(self.ex(s[1], sc), self.ex(s[2], sc))

    def s_gdel(self, s, sc):
        return pt.App.globalDel(self.ex(s[1], sc))

    def s_lput(self, s, sc):
        return pt.App.localPut(self.ex(s[1], sc), self.ex(s[2], sc), self.ex(s[3], sc))

    def s_ldel(self, s, sc):
        return pt.App.localDel(self.ex(s[1], sc), self.ex(s[2], sc))

    def s_pop(self, s, sc):
        return pt.Pop(self.ex(s[1], sc))

    def s_assert(self, s, sc):
        kw = {}
        if len(s) > 2 and s[2] is not None:
            kw["comment"] = s[2]
        return pt.Assert(*[self.ex(c, sc) for c in s[1]], **kw)

    def s_seq(self, s, sc):
        xs = [self.st(x, sc) for x in s[1]]
        if len(s) > 2 and s[2] == "list":
            return pt.Seq(xs)
        return pt.Seq(*xs)

    def s_nop(self, s, sc):
        return pt.Seq()

    def s_if(self, s, sc):
        c = self.ex(s[1], sc)
        if len(s) > 4 and s[4] == "fn":
            if s[3] is None:
                return pt.If(c, self.st(s[2], sc))
            return pt.If(c, self.st(s[2], sc), self.st(s[3], sc))
        e = pt.If(c).Then(self.st(s[2], sc))
        if s[3] is not None:
            e = e.Else(self.st(s[3], sc))
        return e

    def s_ifchain(self, s, sc):
        e = None
        for i, (c, body) in enumerate(s[1]):
            if i == 0:
                e = pt.If(self.ex(c, sc)).Then(self.st(body, sc))
            else:
                e = e.ElseIf(self.ex(c, sc)).Then(self.st(body, sc))
        if s[2] is not None:
            e = e.Else(self.st(s[2], sc))
        return e

    def s_cond(self, s, sc):
        return pt.Cond(*[[self.ex(c, sc), self.st(body, sc)] for c, body in s[1]])

    def s_while(self, s, sc):
        return pt.While(self.ex(s[1], sc)).Do(self.st(s[2], sc))

    def s_for(self, s, sc):
        return pt.For(self.st(s[1], sc), self.ex(s[2], sc), self.st(s[3], sc)).Do(self.st(s[4], sc))

    def s_break(self, s, sc):
        return pt.Break()

    def s_continue(self, s, sc):
        return pt.Continue()

    def s_return(self, s, sc):
        if s[1] is None:
            return pt.Return()
        return pt.Return(self.ex(s[1], sc))

    def s_approve(self, s, sc):
        return pt.Approve()

    def s_reject(self, s, sc):
        return pt.Reject()

    def s_err(self, s, sc):
        return pt.Err()

    def s_callstmt(self, s, sc):
        return self.subs[s[1]](*self.args(s[1], s[2], sc))

    def s_abicall(self, s, sc):
        return self.subs[s[1]](*self.args(s[1], s[2], sc)).store_into(sc.var(s[3])[1])

    def s_itxn(self, s, sc):
        fields = {}
        for f, e in s[1]:
            fields[_TXNFIELD[f]] = self.ex(e, sc)
        return pt.InnerTxnBuilder.Execute(fields)

    def s_comment(self, s, sc):
        if s[2] is None:
            return pt.Comment(s[1])
        return pt.Comment(s[1], self.st(s[2], sc))

    # ------------------------------------------------------------------ program
    def program(self):
        sc = Scope(self.gvars)
        body = [self.st(x, sc) for x in self.r["main"]]
        return pt.Seq(*body, self.ex(self.r["final"], sc))


def build(recipe):
    return Builder(recipe).program()


def compile_recipe(recipe, version, mode="app", scratch_slots=None, frame_pointers=None, assemble_constants=False, optimize_obj=None, first_version=None):
    opts = optimize_obj
    if opts is None and (scratch_slots is not None or frame_pointers is not None):
        opts = pt.OptimizeOptions(scratch_slots=scratch_slots, frame_pointers=frame_pointers)
    m = pt.Mode.Application if mode == "app" else pt.Mode.Signature
    prog = build(recipe)
    if first_version is not None:
        # the same expression object is compiled once before (possibly at another version, possibly failing): compiling must
        # not consume or mutate the tree
        try:
            pt.compileTeal(prog, m, version=first_version, assembleConstants=assemble_constants and first_version >= 3)
        except Exception:
            pass
    return pt.compileTeal(prog, m, version=version, optimize=opts, assembleConstants=assemble_constants)
