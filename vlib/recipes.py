"""Recipe language: typed random generators, small-shape enumerators, context generators, feature analysis.

A recipe is pure JSON data:
  {"mode": "app"|"sig", "vars": [vardef...], "subs": [subdef...], "main": [stmt...], "final": u-expr}
  vardef: {"id", "t": "u"|"b", "kind": "sv"|"abi"|"dyn", "slot": int|None}
  subdef: {"name", "params": [{"k": "u"|"b"|"ref"|"abi", "t": ...}], "ret": "u"|"b"|"n"|"abi:<t>",
           "locals": [vardef...], "body": [stmt...], "retexpr": expr|None, "rec": bool}
Never imports pyteal.
"""
import itertools

from . import avm

# minimum program version of recipe node kinds (documented construct requirements)
MINV_EXPR = {"getbit": 3, "getbyte": 3, "setbit": 3, "setbyte": 3, "sqrt": 4, "bitlen": 4, "bbin": 4, "bcmp": 4, "bnot": 4,
             "bzero": 4, "call": 4, "extractu": 5, "extract": 5, "dload": 5, "bsqrt": 6, "txnas": 5, "gex": 2, "lget": 2}
MINV_BIN = {"shl": 4, "shr": 4, "exp": 4}
MINV_STMT = {"callstmt": 4, "abicall": 4, "log": 5, "itxn": 5, "dset": 5, "dstore": 5, "while": 2, "for": 2}
MINV_GLOBAL = {"CreatorAddress": 3, "CurrentApplicationAddress": 5, "GroupID": 5, "OpcodeBudget": 6, "CallerApplicationID": 6,
               "CallerApplicationAddress": 6}
APP_ONLY_EXPR = {"gget", "gex", "lget"}
APP_ONLY_STMT = {"gput", "gdel", "lput", "ldel", "log", "itxn"}


def walk(node, fn):
    """Call fn(kind, node) for every expr/stmt node of a recipe fragment (lists are traversed)."""
    if isinstance(node, list):
        if node and isinstance(node[0], str):
            fn(node)
            for x in node[1:]:
                walk(x, fn)
        else:
            for x in node:
                walk(x, fn)
    elif isinstance(node, dict):
        for x in node.values():
            walk(x, fn)


def all_nodes(recipe):
    out = []
    walk(recipe["main"], out.append)
    walk(recipe["final"], out.append)
    for s in recipe.get("subs", []):
        walk(s["body"], out.append)
        if s.get("retexpr") is not None:
            walk(s["retexpr"], out.append)
    return out


def min_version(recipe):
    v = 2
    has_abi = any(d.get("kind") == "abi" for d in recipe.get("vars", []))
    for s in recipe.get("subs", []):
        v = max(v, 4)
        if any(p["k"] == "ref" for p in s["params"]):
            v = max(v, 5)  # pass-by-reference uses loads/stores
        if s["ret"].startswith("abi:") or any(p["k"] == "abi" for p in s["params"]) or any(l.get("kind") == "abi" for l in s.get("locals", [])):
            has_abi = True
    if has_abi:
        v = max(v, 5)  # abi.String / uint encode use extract ops
    if any(d.get("kind") == "dyn" for d in recipe.get("vars", [])):
        v = max(v, 5)
    for n in all_nodes(recipe):
        k = n[0]
        v = max(v, MINV_EXPR.get(k, 2), MINV_STMT.get(k, 2))
        if k == "bin":
            v = max(v, MINV_BIN.get(n[1], 2))
        if k == "global":
            v = max(v, MINV_GLOBAL.get(n[1], 2))
        if k == "suffix":
            v = max(v, 5)  # documented: "Requires program version 5 or higher"
        if k == "nary" and n[1] == "concat":
            v = max(v, 2)
    return v


def features(recipe):
    f = set()
    for n in all_nodes(recipe):
        f.add(n[0])
        if n[0] in ("bin", "nary", "bbin", "bcmp"):
            f.add(n[0] + ":" + n[1])
    for s in recipe.get("subs", []):
        f.add("sub_ret:" + s["ret"])
        for p in s["params"]:
            f.add("param:" + p["k"])
        if s.get("rec"):
            f.add("recursive_sub")
    for d in recipe.get("vars", []):
        f.add("var:" + d.get("kind", "sv") + ("+slot" if d.get("slot") is not None else ""))
    return f


# ------------------------------------------------------------------------------------------ generator
class Gen:
    def __init__(self, rng, version=6, mode="app", allow_subs=True, allow_loops=True, allow_abi=True, allow_itxn=True,
                 nonlocal_in_operand=False, size=1.0, min_subs=0, rec_p=.45, call_bias=0.0):
        self.rng = rng
        self.v = version
        self.mode = mode
        self.tagn = 0
        self.vars = []
        self.subs = []
        self.allow_subs = allow_subs and version >= 4
        self.allow_loops = allow_loops
        self.allow_abi = allow_abi and version >= 5
        self.allow_itxn = allow_itxn and version >= 5 and mode == "app"
        self.nonlocal_in_operand = nonlocal_in_operand
        self.size = size
        self.counter_n = 0
        self.min_subs = min_subs
        self.rec_p = rec_p
        self.call_bias = call_bias

    # ---------------------------------------------------------------- leaves
    def small(self):
        return self.rng.choice([0, 1, 2, 3, 4, 5, 7, 8, 10, 255, 256])

    def tag(self):
        self.tagn += 1
        return ("e%d" % self.tagn).encode().hex()

    def effect(self, sc, d=1):
        """An observable effect statement carrying a unique tag (and optionally a value)."""
        rng = self.rng
        t = self.tag()
        if self.mode != "app":
            return ["pop", ["int", self.tagn]]
        val = None
        if rng.random() < .5 and d > 0:
            val = self.u(d - 1, sc)
        if self.v >= 5 and rng.random() < .6:
            if val is None:
                return ["log", ["bytes", t]]
            return ["log", ["nary", "concat", [["bytes", t], ["itob", val]]]]
        key = ["bytes", rng.choice([b"k1", b"k2", b"t"]).hex()]
        if val is None:
            return ["gput", key, ["bytes", t]]
        if rng.random() < .15:
            return ["gdel", key]
        return ["gput", key, ["bin", "+", ["bin", "%", val, ["int", 1000]], ["int", self.tagn * 1000]]]

    def ctxint(self):
        """A uint64 that depends on the context (drives both sides of conditions)."""
        rng = self.rng
        if self.mode == "sig":
            return ["btoi", ["arg", rng.randrange(0, 3)]]
        r = rng.random()
        if r < .6:
            return ["btoi", ["txna", "ApplicationArgs", rng.randrange(0, 4)]]
        if r < .75:
            return ["txn", rng.choice(["Fee", "Amount", "OnCompletion", "NumAppArgs", "ApplicationID", "FirstValid"])]
        if r < .83:
            return ["global", rng.choice(["GroupSize", "MinTxnFee", "Round"])]
        if r < .9:
            return ["gget", ["bytes", rng.choice([b"i1", b"i2"]).hex()]]
        if r < .93:
            return ["gtxn", rng.randrange(0, 2), rng.choice(["Fee", "Amount"])]
        if r < .95:
            c = rng.random()
            if c < .4:
                return ["lget", ["int", 0], ["bytes", rng.choice([b"lk", b"l2"]).hex()]]
            if c < .7 and self.v >= 5:
                return ["btoi", ["txnas", "ApplicationArgs", ["bin", "%", self.ctxint(), ["int", 4]]]]
            return ["btoi", ["gtxna", 0, "ApplicationArgs", rng.randrange(0, 4)]]
        return ["gex", ["bytes", rng.choice([b"i1", b"i3"]).hex()], ["int", self.small()]]

    def ctxbytes(self):
        rng = self.rng
        if self.mode == "sig":
            return ["arg", rng.randrange(0, 3)]
        r = rng.random()
        if r < .6:
            return ["txna", "ApplicationArgs", rng.randrange(0, 4)]
        if r < .8:
            return ["txn", rng.choice(["Sender", "Note", "Receiver"])]
        return ["itob", self.ctxint()]

    # ---------------------------------------------------------------- expressions
    def u(self, d, sc):
        rng = self.rng
        if d > 0 and self.call_bias and rng.random() < self.call_bias:
            c = self.call_expr("u", d - 1, sc)
            if c is not None:
                return c
        k = rng.random()
        if d <= 0 or k < .3:
            c = rng.random()
            uv = sc.get("u", [])
            if uv and c < .4:
                return ["load", rng.choice(uv)]
            pv = [i for i, p in enumerate(sc.get("params", [])) if p["k"] == "u"]
            if pv and c < .6:
                return ["param", rng.choice(pv)]
            pr = [i for i, p in enumerate(sc.get("params", [])) if p["k"] == "ref" and p["t"] == "u"]
            if pr and c < .68:
                return ["pload", rng.choice(pr)]
            pa = [i for i, p in enumerate(sc.get("params", [])) if p["k"] == "abi" and p["t"] in ("uint64", "uint16", "bool", "uint8")]
            if pa and c < .75:
                return ["pget", rng.choice(pa)]
            if c < .85:
                return self.ctxint()
            return ["int", rng.choice([0, 1, 2, 3, 5, 7, 10, 255, 256, 65535, 2**32, 2**63, 2**64 - 1])]
        if k < .5:
            ops = ["+", "-", "*", "/", "%", "<", ">", "<=", ">=", "==", "!=", "&", "|", "^"]
            if self.v >= 4:
                ops += ["shl", "shr", "exp"]
            op = rng.choice(ops)
            a, b = self.u(d - 1, sc), self.u(d - 1, sc)
            if op in ("*", "exp", "shl") and rng.random() < .7:
                b = ["int", rng.choice([0, 1, 2, 3])]
            if op == "-" and rng.random() < .6:
                a = ["bin", "+", a, b] if rng.random() < .5 else ["bin", "|", a, b]
            if op in ("/", "%") and rng.random() < .7:
                b = ["bin", "|", b, ["int", 1]]
            return ["bin", op, a, b]
        if k < .57:
            op = rng.choice(["add", "mul", "and", "or"])
            n = rng.choice([2, 3, 3, 4])
            xs = [self.u(d - 1, sc) for _ in range(n)]
            if op == "mul":
                xs = [["bin", "%", x, ["int", 5]] for x in xs]
            return ["nary", op, xs]
        if k < .63:
            return [rng.choice(["not", "bitnot"] + (["sqrt", "bitlen"] if self.v >= 4 else [])), self.u(d - 1, sc)]
        if k < .7:
            r = rng.random()
            if r < .35:
                return ["len", self.b(d - 1, sc)]
            if r < .55:
                return ["btoi", ["substr", ["nary", "concat", [self.b(d - 1, sc), ["bytes", "00" * 8]]], ["int", 0], ["int", rng.choice([1, 2, 8])]]]
            if r < .7:
                return [rng.choice(["beq", "bneq"]), self.b(d - 1, sc), self.b(d - 1, sc)]
            if r < .8 and self.v >= 4:
                return ["bcmp", rng.choice(["b<", "b>", "b<=", "b>=", "b==", "b!="]), self.b(d - 1, sc), self.b(d - 1, sc)]
            if r < .9 and self.v >= 3:
                if rng.random() < .5:
                    return ["getbit", self.u(d - 1, sc), ["int", rng.randrange(0, 64)]]
                return ["getbyte", ["nary", "concat", [self.b(d - 1, sc), ["bytes", "aabb"]]], ["int", rng.choice([0, 1])]]
            if self.v >= 5:
                return ["extractu", rng.choice([16, 32, 64]), ["nary", "concat", [self.b(d - 1, sc), ["bytes", "0102030405060708"]]], ["int", 0]]
            return ["len", self.b(d - 1, sc)]
        if k < .78:
            e = ["ifx", self.cond(d - 1, sc), self.u(d - 1, sc), self.u(d - 1, sc)]
            if rng.random() < .2:
                e.append("fn")
            return e
        if k < .82:
            arms = [[self.cond(d - 1, sc), self.u(d - 1, sc)] for _ in range(rng.randrange(1, 3))]
            arms.append([["int", 1], self.u(d - 1, sc)])
            return ["condx", arms]
        if k < .9:
            stmts = [self.operand_stmt(d - 1, sc) for _ in range(rng.randrange(1, 3))]
            return ["seqx", stmts, self.u(d - 1, sc)]
        if k < .97:
            c = self.call_expr("u", d - 1, sc)
            if c is not None:
                return c
        return self.ctxint()

    def b(self, d, sc):
        rng = self.rng
        if d > 0 and self.call_bias and rng.random() < self.call_bias:
            c = self.call_expr("b", d - 1, sc)
            if c is not None:
                return c
        k = rng.random()
        if d <= 0 or k < .35:
            c = rng.random()
            bv = sc.get("b", [])
            if bv and c < .4:
                return ["load", rng.choice(bv)]
            pv = [i for i, p in enumerate(sc.get("params", [])) if p["k"] == "b"]
            if pv and c < .6:
                return ["param", rng.choice(pv)]
            pr = [i for i, p in enumerate(sc.get("params", [])) if p["k"] == "ref" and p["t"] == "b"]
            if pr and c < .68:
                return ["pload", rng.choice(pr)]
            pa = [i for i, p in enumerate(sc.get("params", [])) if p["k"] == "abi" and p["t"] == "string"]
            if pa and c < .75:
                return ["pget", rng.choice(pa)]
            if c < .85:
                return self.ctxbytes()
            return ["bytes", rng.choice([b"", b"a", b"abc", b"\x00\x01", b"\xff" * 8, b"hello world", bytes(range(20)), "caf\u00e9".encode(), "\u03c0\u22483.14".encode(),
                                         "na\u00efve \U0001f600".encode()]).hex()]
        if k < .5:
            return ["nary", "concat", [self.b(d - 1, sc) for _ in range(rng.choice([2, 2, 3]))]]
        if k < .58:
            return ["itob", self.u(d - 1, sc)]
        if k < .7:
            base = ["nary", "concat", [self.b(d - 1, sc), ["bytes", bytes(range(rng.choice([4, 16, 40]))).hex()]]]
            r = rng.random()
            s = rng.choice([0, 1, 2, 3])
            if r < .35:
                return ["substr", base, ["int", s], ["int", s + rng.choice([0, 1, 2])]]
            if r < .55 and self.v >= 5:
                return ["extract", base, ["int", s], ["int", rng.choice([0, 1, 2, 4])]]
            if r < .7:
                return ["suffix", base, ["int", s]]
            if r < .85:
                return ["substr", base, ["bin", "%", self.u(d - 1, sc), ["int", 3]], ["int", 3]]
            if self.v >= 5:
                return ["extract", base, ["bin", "%", self.u(d - 1, sc), ["int", 3]], ["int", 1]]
            return ["suffix", base, ["bin", "%", self.u(d - 1, sc), ["int", 3]]]
        if k < .73 and self.v >= 4:
            # slices on both sides of the 255/256 immediate boundary
            big = ["nary", "concat", [["bzero", ["int", 300]], self.b(d - 1, sc)]]
            pts = [0, 1, 2, 254, 255, 256, 257, 299, 300]
            a0 = rng.choice(pts)
            r = rng.random()
            if r < .4:
                return ["substr", big, ["int", a0], ["int", rng.choice([p for p in pts if p >= a0])]]
            if r < .7 and self.v >= 5:
                return ["extract", big, ["int", a0], ["int", rng.choice([0, 1, 2, 44, 255, 256, 257])]]
            return ["suffix", big, ["int", a0]]
        if k < .75:
            return ["sha256", self.b(d - 1, sc)] if (self.v < 6 or rng.random() < .8) else ["bsqrt", self.b(d - 1, sc)]
        if k < .8 and self.v >= 4:
            r = rng.random()
            if r < .5:
                op = rng.choice(["b+", "b*", "b|", "b&", "b^", "b-", "b/", "b%"])
                a, b2 = self.b(d - 1, sc), self.b(d - 1, sc)
                if op in ("b-",):
                    a = ["bbin", "b+", a, b2]
                if op in ("b/", "b%"):
                    b2 = ["bbin", "b|", b2, ["bytes", "01"]]
                return ["bbin", op, ["substr", ["nary", "concat", [a, ["bytes", "00" * 4]]], ["int", 0], ["int", 4]],
                        ["substr", ["nary", "concat", [b2, ["bytes", "00" * 4]]], ["int", 0], ["int", 4]]] if op not in ("b-",) else \
                    ["bbin", "b-", ["bbin", "b+", ["substr", ["nary", "concat", [a, ["bytes", "00" * 4]]], ["int", 0], ["int", 4]], ["bytes", "0100000000"]],
                     ["substr", ["nary", "concat", [b2, ["bytes", "00" * 4]]], ["int", 0], ["int", 4]]]
            if r < .7:
                return ["bnot", self.b(d - 1, sc)]
            return ["bzero", ["bin", "%", self.u(d - 1, sc), ["int", 9]]]
        if k < .84 and self.v >= 3:
            base = ["nary", "concat", [self.b(d - 1, sc), ["bytes", "a0b1"]]]
            if rng.random() < .5:
                return ["setbyte", base, ["int", rng.choice([0, 1])], ["bin", "%", self.u(d - 1, sc), ["int", 256]]]
            return ["setbit", base, ["int", rng.randrange(0, 16)], ["bin", "%", self.u(d - 1, sc), ["int", 2]]]
        if k < .9:
            return ["ifx", self.cond(d - 1, sc), self.b(d - 1, sc), self.b(d - 1, sc)]
        if k < .95:
            stmts = [self.operand_stmt(d - 1, sc) for _ in range(rng.randrange(1, 3))]
            return ["seqx", stmts, self.b(d - 1, sc)]
        c = self.call_expr("b", d - 1, sc)
        if c is not None:
            return c
        return self.ctxbytes()

    def cond(self, d, sc):
        rng = self.rng
        r = rng.random()
        if r < .5:
            return ["bin", rng.choice(["<", ">", "==", "!=", "<=", ">="]), ["bin", "%", self.u(max(d, 0), sc), ["int", rng.choice([2, 3, 4])]],
                    ["int", rng.choice([0, 1, 2])]]
        if r < .7:
            return ["bin", "%", self.u(max(d, 0), sc), ["int", 2]]
        return self.u(max(d, 0), sc)

    def operand_stmt(self, d, sc):
        """Statement inside an expression operand: effects, stores, conditionals; non-local exits only when asked for."""
        rng = self.rng
        r = rng.random()
        sc2 = dict(sc, in_operand=True)
        if self.nonlocal_in_operand and r < .25:
            c = rng.random()
            if c < .5 and sc.get("routine") is not None or c < .5:
                return ["if", self.cond(d, sc), self.ret_stmt(sc), None]
            if sc.get("inloop"):
                return ["if", self.cond(d, sc), [rng.choice(["break", "continue"])], None]
        if r < .6:
            return self.effect(sc2, d)
        if r < .8 and (sc.get("u") or sc.get("b")):
            return self.store_stmt(d, sc2)
        if r < .9:
            return ["if", self.cond(d, sc2), self.effect(sc2, d), self.effect(sc2, d) if rng.random() < .5 else None]
        return ["assert", [["bin", "<", ["bin", "%", self.u(d, sc2), ["int", 100]], ["int", 1000]]]]

    def call_expr(self, ty, d, sc):
        if not self.allow_subs:
            return None
        cands = self.callable_subs(sc, ty)
        if not cands:
            return None
        k = self.rng.choice(cands)
        args = self.call_args(k, d, sc)
        if args is None:
            return None
        return ["call", k, args]

    def callable_subs(self, sc, ret):
        """Indices of subroutines the current routine may call while keeping termination."""
        cur = sc.get("routine")
        out = []
        for k, s in enumerate(self.subs):
            if s is None:
                continue
            if ret is not None and s["ret"] != ret:
                continue
            if cur is None:
                out.append(k)
            else:
                me = self.subs_meta[cur]
                if s["rec"]:
                    if me["rec"]:
                        out.append(k)
                elif k > cur or me["rec"]:
                    out.append(k)
        return out

    def call_args(self, k, d, sc):
        rng = self.rng
        s = self.subs[k]
        args = []
        cur = sc.get("routine")
        for i, p in enumerate(s["params"]):
            if i == 0 and s["rec"]:
                if cur is not None and self.subs_meta[cur]["rec"]:
                    args.append(["bin", "-", ["param", 0], ["int", 1]])
                else:
                    args.append(["int", rng.choice([0, 1, 2, 3])] if rng.random() < .7 else ["bin", "%", self.ctxint(), ["int", 4]])
            elif p["k"] == "u":
                args.append(self.u(d, sc))
            elif p["k"] == "b":
                args.append(self.b(d, sc))
            elif p["k"] == "ref":
                cands = [["ref", v] for v in sc.get(p["t"], []) if v in sc.get("svs", set())]
                # forwarding one of the caller's own by-reference parameters
                cands += [["refparam", j] for j, q in enumerate(sc.get("params", [])) if q["k"] == "ref" and q["t"] == p["t"]] * 2
                if not cands:
                    return None
                args.append(rng.choice(cands))
            elif p["k"] == "abi":
                cands = [v for v in sc.get("abis", {}).get(p["t"], [])]
                if not cands:
                    return None
                args.append(["abi", rng.choice(cands)])
        return args

    # ---------------------------------------------------------------- statements
    def store_stmt(self, d, sc):
        rng = self.rng
        uv, bv = sc.get("u", []), sc.get("b", [])
        prs = [i for i, p in enumerate(sc.get("params", [])) if p["k"] == "ref"]
        if prs and rng.random() < .25:
            i = rng.choice(prs)
            t = sc["params"][i]["t"]
            return ["pstore", i, self.u(d, sc) if t == "u" else self.b(d, sc)]
        if sc.get("output") and rng.random() < .3:
            return ["store", "output", self.abi_value(sc["output"], d, sc)]
        cands = [v for v in uv + bv if v not in sc.get("counters", set())]
        if not cands:
            return self.effect(sc, d)
        v = rng.choice(cands)
        if v in uv:
            t = sc.get("abit", {}).get(v)
            if t:
                return ["store", v, self.abi_value(t, d, sc)]
            return ["store", v, self.u(d, sc)]
        return ["store", v, self.b(d, sc)]

    def abi_value(self, t, d, sc):
        if t == "string":
            return ["substr", ["nary", "concat", [self.b(d, sc), ["bytes", "00" * 4]]], ["int", 0], ["int", self.rng.choice([0, 1, 3, 4])]]
        if t == "uint64":
            return self.u(d, sc)
        if t == "bool":
            return self.u(d, sc)
        bits = {"uint8": 8, "byte": 8, "uint16": 16, "uint32": 32}[t]
        if self.rng.random() < .1:
            return self.u(d, sc)  # may violate the range -> program must fail on both sides
        return ["bin", "%", self.u(d, sc), ["int", 2**bits]]

    def ret_stmt(self, sc):
        rng = self.rng
        rt = sc.get("ret")
        if sc.get("routine") is None:
            r = rng.random()
            if r < .6:
                return ["return", self.u(1, sc)]
            return [rng.choice(["approve", "reject"])]
        if rt == "u":
            return ["return", self.u(1, sc)]
        if rt == "b":
            return ["return", self.b(1, sc)]
        return ["return", None]

    def stmt(self, d, sc):
        rng = self.rng
        k = rng.random()
        if d <= 0 or k < .28:
            c = rng.random()
            if c < .3:
                return self.effect(sc, 2)
            if c < .62:
                return self.store_stmt(2, sc)
            if c < .7:
                conds = [["bin", "<", ["bin", "%", self.u(1, sc), ["int", 50]], ["int", rng.choice([50, 50, 50, 45])]] for _ in range(rng.choice([1, 1, 2, 3]))]
                return ["assert", conds]
            if c < .76 and sc.get("inloop"):
                return ["if", self.cond(1, sc), ["break"], None] if rng.random() < .7 else ["break"]
            if c < .82 and sc.get("inloop"):
                return ["if", self.cond(1, sc), ["continue"], None] if rng.random() < .7 else ["continue"]
            if c < .86:
                return ["nop"]
            if c < .9:
                return ["pop", self.u(2, sc) if rng.random() < .6 else self.b(2, sc)]
            if c < .95:
                return ["if", self.cond(1, sc), self.ret_stmt(sc), None]
            if c < .97 and self.allow_itxn and not sc.get("inloop"):
                return ["itxn", [["TypeEnum", ["int", 1]], ["Amount", ["bin", "%", self.u(1, sc), ["int", 1000]]],
                                 ["Receiver", ["txn", "Sender"]], ["Note", self.b(1, sc)]]]
            if self.mode == "app" and c < .98:
                return ["lput", ["int", 0], ["bytes", rng.choice([b"lk", b"l2"]).hex()], self.u(1, sc)]
            if self.mode == "app" and c < .985:
                return ["ldel", ["int", 0], ["bytes", rng.choice([b"lk", b"l2"]).hex()]]
            if c < .993:
                return ["if", self.cond(1, sc), ["err"], None]
            return self.effect(sc, 1)
        if k < .42:
            n = rng.randrange(0, 4)
            s = ["seq", [self.stmt(d - 1, sc) for _ in range(n)]]
            if rng.random() < .1:
                s.append("list")
            return s
        if k < .56:
            e = ["if", self.cond(1, sc), self.stmt(d - 1, sc), self.stmt(d - 1, sc) if rng.random() < .55 else None]
            if rng.random() < .15:
                e.append("fn")
            return e
        if k < .62:
            arms = [[self.cond(1, sc), self.stmt(d - 1, sc)] for _ in range(rng.randrange(1, 4))]
            return ["ifchain", arms, self.stmt(d - 1, sc) if rng.random() < .6 else None]
        if k < .69:
            arms = [[self.cond(1, sc), self.stmt(d - 1, sc)] for _ in range(rng.randrange(1, 3))]
            if rng.random() < .85:
                arms.append([["int", 1], self.stmt(d - 1, sc)])
            return ["cond", arms]
        if k < .82 and self.allow_loops and sc.get("loopdepth", 0) < 2:
            return self.loop(d, sc)
        if k < .93 and self.allow_subs:
            cands = self.callable_subs(sc, None)
            cands = [c for c in cands if self.subs[c]["ret"] in ("n",) or self.subs[c]["ret"].startswith("abi:")]
            if cands:
                kk = rng.choice(cands)
                args = self.call_args(kk, 1, sc)
                if args is not None:
                    s = self.subs[kk]
                    if s["ret"].startswith("abi:"):
                        t = s["ret"][4:]
                        outs = sc.get("abis", {}).get(t, [])
                        if outs:
                            return ["abicall", kk, args, rng.choice(outs)]
                    else:
                        return ["callstmt", kk, args]
        return self.effect(sc, 2)

    def loop(self, d, sc):
        rng = self.rng
        cid = sc["new_counter"]()
        bound = rng.choice([0, 1, 2, 2, 3, 4])
        limit = ["int", bound] if rng.random() < .6 else ["bin", "%", self.ctxint(), ["int", 4]]
        sc2 = dict(sc, inloop=True, loopdepth=sc.get("loopdepth", 0) + 1)
        sc2["u"] = sc.get("u", []) + [cid]
        sc2["counters"] = set(sc.get("counters", set())) | {cid}
        body_n = rng.randrange(0, 3)
        if rng.random() < .6:
            body = ["seq", [self.stmt(d - 1, sc2) for _ in range(body_n)]]
            return ["for", ["store", cid, ["int", 0]], ["bin", "<", ["load", cid], limit],
                    ["store", cid, ["bin", "+", ["load", cid], ["int", 1]]], body]
        body = ["seq", [["store", cid, ["bin", "+", ["load", cid], ["int", 1]]]] + [self.stmt(d - 1, sc2) for _ in range(body_n)]]
        return ["seq", [["store", cid, ["int", 0]], ["while", ["bin", "<", ["load", cid], limit], body]]]

    # ---------------------------------------------------------------- subroutines and programs
    def make_sub(self, k, rec):
        rng = self.rng
        # recursive ABI-returning routines are left to a dedicated C02 probe: ReturnedValue.store_into evaluates the callee's body
        # eagerly and relies on a RecursionError to stop, which costs seconds to minutes per compilation
        ret = rng.choice(["u", "u", "b", "n", "n"] + (["abi:uint64", "abi:string", "abi:uint16", "abi:bool"] if self.allow_abi and not rec else []))
        params = []
        if rec:
            params.append({"k": "u"})
        n = rng.choice([0, 1, 1, 2, 2, 3, 4])
        for _ in range(n):
            r = rng.random()
            if r < .5:
                params.append({"k": "u"})
            elif r < .75:
                params.append({"k": "b"})
            elif r < .87 and not rec and not ret.startswith("abi:"):
                params.append({"k": "ref", "t": rng.choice(["u", "b"])})
            elif self.allow_abi:
                params.append({"k": "abi", "t": rng.choice(["uint64", "string", "uint16", "bool"])})
            else:
                params.append({"k": "u"})
        meta = {"name": "s%d" % k, "params": params, "ret": ret, "rec": rec}
        return meta

    def fill_sub(self, k):
        rng = self.rng
        meta = self.subs[k]
        locals_ = []
        nl = rng.choice([0, 1, 1, 2, 3, 5])
        sc = {"routine": k, "ret": meta["ret"] if not meta["ret"].startswith("abi:") else "n", "params": meta["params"], "u": [], "b": [],
              "svs": set(), "abis": {}, "abit": {}, "counters": set()}
        body = []
        for j in range(nl):
            vid = "s%d.L%d" % (k, j)
            r = rng.random()
            if r < .55:
                locals_.append({"id": vid, "t": "u", "kind": "sv"})
                sc["u"].append(vid); sc["svs"].add(vid)
                body.append(["store", vid, ["int", 100 * (k + 1) + j]])
            elif r < .8:
                locals_.append({"id": vid, "t": "b", "kind": "sv"})
                sc["b"].append(vid); sc["svs"].add(vid)
                body.append(["store", vid, ["bytes", ("L%d%d" % (k, j)).encode().hex()]])
            elif self.allow_abi:
                t = rng.choice(["uint64", "string", "uint16", "bool"])
                locals_.append({"id": vid, "t": t, "kind": "abi"})
                sc["abis"].setdefault(t, []).append(vid)
                sc["abit"][vid] = t
                (sc["b"] if t == "string" else sc["u"]).append(vid)
                body.append(["store", vid, ["bytes", "4c"] if t == "string" else ["int", j % 2]])
        cn = [0]

        def new_counter():
            vid = "s%d.C%d" % (k, cn[0])
            cn[0] += 1
            locals_.append({"id": vid, "t": "u", "kind": "sv"})
            return vid
        sc["new_counter"] = new_counter
        if meta["ret"].startswith("abi:"):
            sc["output"] = meta["ret"][4:]
            t = sc["output"]
            body.append(["store", "output", ["bytes", "6f"] if t == "string" else ["int", 1]])
        if meta["rec"]:
            base = self.ret_stmt(dict(sc, u=list(sc["u"]), b=list(sc["b"])))
            body.append(["if", ["bin", "==", ["param", 0], ["int", 0]], base, None])
        depth = rng.choice([1, 2, 2, 3])
        for _ in range(rng.randrange(1, 4)):
            body.append(self.stmt(depth, sc))
        retexpr = None
        if meta["ret"] == "u":
            retexpr = self.u(2, sc)
        elif meta["ret"] == "b":
            retexpr = self.b(2, sc)
        meta.update({"locals": locals_, "body": body, "retexpr": retexpr})

    def program(self):
        rng = self.rng
        nsubs = rng.choice([0, 0, 1, 2, 3, 4]) if self.allow_subs else 0
        if self.allow_subs and nsubs < self.min_subs:
            nsubs = rng.choice([1, 2, 2, 3, 4])
        self.subs = []
        self.subs_meta = []
        for k in range(nsubs):
            rec = rng.random() < self.rec_p
            m = self.make_sub(k, rec)
            self.subs.append(m)
            self.subs_meta.append(m)
        # global variables
        vars_ = []
        sc = {"routine": None, "ret": "u", "params": [], "u": [], "b": [], "svs": set(), "abis": {}, "abit": {}, "counters": set()}
        main = []
        used_slots = set()
        nv = rng.choice([1, 2, 3, 4, 6])
        for j in range(nv):
            vid = "g%d" % j
            r = rng.random()
            slot = None
            if rng.random() < .25:
                slot = rng.choice([x for x in [0, 1, 2, 10, 100, 128, 200, 254, 255] if x not in used_slots])
                used_slots.add(slot)
            if r < .5:
                vars_.append({"id": vid, "t": "u", "kind": "sv", "slot": slot})
                sc["u"].append(vid); sc["svs"].add(vid)
                main.append(["store", vid, ["int", j + 1]])
            elif r < .78:
                vars_.append({"id": vid, "t": "b", "kind": "sv", "slot": slot})
                sc["b"].append(vid); sc["svs"].add(vid)
                main.append(["store", vid, ["bytes", ("G%d" % j).encode().hex()]])
            elif self.allow_abi:
                t = rng.choice(["uint64", "string", "uint16", "bool"])
                vars_.append({"id": vid, "t": t, "kind": "abi"})
                sc["abis"].setdefault(t, []).append(vid)
                sc["abit"][vid] = t
                (sc["b"] if t == "string" else sc["u"]).append(vid)
                main.append(["store", vid, ["bytes", "47"] if t == "string" else ["int", j % 2]])
            else:
                vars_.append({"id": vid, "t": "u", "kind": "sv", "slot": slot})
                sc["u"].append(vid); sc["svs"].add(vid)
                main.append(["store", vid, ["int", j + 1]])
        cn = [0]

        def new_counter():
            vid = "gc%d" % cn[0]
            cn[0] += 1
            vars_.append({"id": vid, "t": "u", "kind": "sv", "slot": None})
            return vid
        sc["new_counter"] = new_counter
        self.vars = vars_
        if self.v >= 5 and rng.random() < .2 and sc["u"]:
            svu = [v for v in sc["u"] if v in sc["svs"]]
            if svu:
                vars_.append({"id": "dyn0", "t": "u", "kind": "dyn"})
                main.append(["dset", "dyn0", rng.choice(svu)])
                main.append(["dstore", "dyn0", ["bin", "+", ["dload", "dyn0"], ["int", 40]]])
        # a first statement that is not a store every now and then (loop first, etc.)
        body = []
        depth = rng.choice([1, 2, 2, 3, 3])
        for _ in range(rng.randrange(1, 5)):
            body.append(self.stmt(depth, sc))
        if rng.random() < .08:
            main = body + main  # first statement is whatever comes (variables then initialised late: only safe if unused before)
            main = [s for s in main]
            # keep definite assignment: initialisers must come first when variables are used; so only do this when no loads
            if any(n[0] in ("load", "dload", "abi", "ref", "dset", "abicall") for n in _nodes_of(body)):
                main = main[len(body):] + body
        else:
            main = main + body
        for k in range(nsubs):
            self.fill_sub(k)
        final = self.u(2, sc)
        subs = [{k2: v for k2, v in s.items()} for s in self.subs]
        return {"mode": self.mode, "vars": vars_, "subs": subs, "main": main, "final": final}


def _nodes_of(x):
    out = []
    walk(x, out.append)
    return out


# ------------------------------------------------------------------------------------------ contexts
def gen_ctx_desc(rng, mode, hostile=False):
    """JSON description of a transaction context."""
    def argval():
        r = rng.random()
        if r < .75:
            return rng.choice([0, 1, 2, 3, 4, 5, 7, 9, 10, 100]).to_bytes(8, "big").hex()
        if r < .9:
            return rng.randrange(2**64).to_bytes(8, "big").hex()
        return bytes(rng.randrange(256) for _ in range(rng.choice([0, 1, 3, 8, 9]))).hex()
    nargs = 4 if not hostile or rng.random() < .7 else rng.randrange(0, 4)
    d = {"mode": mode, "args": [argval() for _ in range(nargs)],
         "txn": {"Fee": rng.choice([0, 1000, 2000]), "Amount": rng.choice([0, 1, 5, 1000000]), "OnCompletion": rng.choice([0, 0, 1, 2, 4, 5]),
                 "ApplicationID": rng.choice([0, 77]), "FirstValid": rng.choice([1, 1000]), "Note": rng.choice(["", "6e6f7465"]),
                 "Sender": "53" * 32, "Receiver": rng.choice(["52" * 32, "00" * 32])},
         "group": rng.choice([2, 2, 3]),
         "gstate": {}}
    for k in ("i1", "i2", "i3"):
        if rng.random() < .5:
            d["gstate"][k.encode().hex()] = rng.choice([0, 1, 2, 3, 7, 100])
    return d


def make_ctx(d):
    txn = {"ApplicationArgs": [bytes.fromhex(a) for a in d["args"]], "TypeEnum": 6}
    for k, v in d["txn"].items():
        txn[k] = bytes.fromhex(v) if isinstance(v, str) else v
    group = [txn] + [{"TypeEnum": 1, "Fee": 1000 * (i + 1), "Amount": 7 * (i + 1), "Sender": b"\x53" * 32} for i in range(d["group"] - 1)]
    ctx = avm.Ctx(mode=d["mode"], group=group, gi=0)
    ctx.args = [bytes.fromhex(a) for a in d["args"]]
    ctx.app_id = d["txn"].get("ApplicationID", 77) or 77
    for k, v in d.get("gstate", {}).items():
        ctx.app_global[bytes.fromhex(k)] = v
    return ctx


# ------------------------------------------------------------------------------------------ skeleton enumeration
LEAF_STMTS = ["E", "S", "A", "N"]  # effect, store, assert, nop


def skeletons(n_nodes, inloop=False):
    """All control skeletons (statement trees) with exactly n_nodes nodes.  Leaves are placeholders filled by
    instantiate().  Node kinds: seq2, if, ifelse, cond1, cond2, while, for, break, continue, ret, leaf."""
    if n_nodes <= 0:
        return
    if n_nodes == 1:
        yield ["leaf"]
        yield ["ret"]
        if inloop:
            yield ["break"]
            yield ["continue"]
        return
    rest = n_nodes - 1
    for a in skeletons(rest, inloop):
        yield ["if", a]
        yield ["cond1", a]
    for a in skeletons(rest, True):
        yield ["while", a]
        yield ["for", a]
    yield from (["while0"] for _ in [0] if n_nodes == 1)
    for i in range(1, rest):
        for a in skeletons(i, inloop):
            for b in skeletons(rest - i, inloop):
                yield ["seq2", a, b]
                yield ["ifelse", a, b]
                yield ["cond2", a, b]


def instantiate(skel, mode="app", version=6, effect_kind="auto"):
    """Turn a skeleton into a recipe: effectful leaves with unique tags, conditions driven by distinct app args,
    loops bounded by a counter."""
    st = {"tag": 0, "cond": 0, "ctr": 0}
    vars_ = [{"id": "x", "t": "u", "kind": "sv", "slot": None}]

    def eff():
        st["tag"] += 1
        t = ("e%d" % st["tag"]).encode().hex()
        if mode != "app":
            return ["store", "x", ["bin", "+", ["bin", "*", ["load", "x"], ["int", 3]], ["int", st["tag"]]]]
        if version >= 5:
            return ["log", ["bytes", t]]
        return ["gput", ["bytes", t], ["int", st["tag"]]]

    def cond():
        i = st["cond"] % 4
        st["cond"] += 1
        src = ["btoi", ["txna", "ApplicationArgs", i]] if mode == "app" else ["btoi", ["arg", i % 3]]
        return ["bin", "%", ["bin", "/", src, ["int", 2 ** (st["cond"] // 4)]], ["int", 2]]

    def go(s):
        k = s[0]
        if k == "leaf":
            return eff()
        if k == "ret":
            return ["return", ["bin", "+", ["load", "x"], ["int", 1]]]
        if k in ("break", "continue"):
            return ["if", cond(), [k], None] if False else [k]
        if k == "if":
            return ["if", cond(), go(s[1]), None]
        if k == "ifelse":
            return ["if", cond(), go(s[1]), go(s[2])]
        if k == "cond1":
            return ["cond", [[cond(), go(s[1])]]]
        if k == "cond2":
            return ["cond", [[cond(), go(s[1])], [["int", 1], go(s[2])]]]
        if k == "seq2":
            return ["seq", [go(s[1]), go(s[2])]]
        if k in ("while", "for"):
            cid = "c%d" % st["ctr"]
            st["ctr"] += 1
            vars_.append({"id": cid, "t": "u", "kind": "sv", "slot": None})
            lim = ["bin", "%", ["btoi", ["txna", "ApplicationArgs", 3]] if mode == "app" else ["btoi", ["arg", 2]], ["int", 3]]
            body = go(s[1])
            if k == "for":
                return ["for", ["store", cid, ["int", 0]], ["bin", "<", ["load", cid], lim],
                        ["store", cid, ["bin", "+", ["load", cid], ["int", 1]]], body]
            return ["seq", [["store", cid, ["int", 0]],
                            ["while", ["bin", "<", ["load", cid], lim], ["seq", [["store", cid, ["bin", "+", ["load", cid], ["int", 1]]], body]]]]]
        raise ValueError(k)
    body = go(skel)
    main = [["store", "x", ["int", 1]], body, eff()]
    return {"mode": mode, "vars": vars_, "subs": [], "main": main, "final": ["bin", "%", ["load", "x"], ["int", 2]] if False else ["int", 1]}
