"""ABI shape / value generators and PyTeal builders shared by C06, C07, C09, C14, C19.

Types are handled as algosdk type strings; the reference codec is algosdk.abi.  Functions that need pyteal
take it as the first argument so that this module can be imported without the repository.
"""
import itertools

from algosdk import abi as sabi

LEAVES = ["bool", "byte", "uint8", "uint16", "uint32", "uint64", "address", "string"]


def rand_type(rng, depth=0, maxdepth=3, leaf_p=.45):
    if depth >= maxdepth or rng.random() < leaf_p:
        return rng.choice(LEAVES)
    k = rng.random()
    if k < .3:
        child = rand_type(rng, depth + 1, maxdepth, leaf_p)
        if child in ("byte", "uint8", "bool") and rng.random() < .3:
            # lengths at which a byte array coincides with another type's layout (address = 32 bytes) and their neighbours
            return child + "[%d]" % rng.choice([31, 32, 32, 32, 33, 64])
        return child + "[%d]" % rng.choice([0, 1, 2, 3, 4, 7, 8, 9])
    if k < .55:
        return rand_type(rng, depth + 1, maxdepth, leaf_p) + "[]"
    if k < .7:
        # bool runs next to dynamic members
        n = rng.choice([1, 7, 8, 9, 16, 17])
        parts = ["bool"] * n
        for _ in range(rng.randrange(0, 3)):
            parts.insert(rng.randrange(len(parts) + 1), rng.choice(["string", "uint8[]", "uint16", "bool[]", "byte"]))
        return "(" + ",".join(parts) + ")"
    n = rng.randrange(0, 6)
    return "(" + ",".join(rand_type(rng, depth + 1, maxdepth, leaf_p) for _ in range(n)) + ")"


def boundary_shape(rng):
    """Tuples built around the places where the codec's arithmetic changes regime: bool runs of 7/8/9/15/16/17/24 members next to
    and between dynamic members, and static prefixes of exactly 254..258 bytes in front of a member (one-byte immediates)."""
    DYN = ["string", "uint8[]", "bool[]", "uint16[]", "(uint8,string)"]
    STA = ["uint8", "uint16", "uint64", "byte", "address", "byte[3]", "(uint8,uint16)"]
    if rng.random() < .6:
        parts = []
        for seg in range(rng.choice([1, 2, 2, 3])):
            if rng.random() < .8:
                parts.append(rng.choice(DYN))
            if rng.random() < .3:
                parts.append(rng.choice(STA))
            parts += ["bool"] * rng.choice([7, 8, 8, 9, 15, 16, 16, 17, 24])
            if rng.random() < .3:
                parts.append(rng.choice(STA))
        if rng.random() < .8:
            parts.append(rng.choice(DYN))
        if rng.random() < .2:
            parts += ["bool"] * rng.choice([1, 8])
        return "(" + ",".join(parts) + ")"
    # static prefix summing to a chosen size, then the member under test (and sometimes more)
    target = rng.choice([254, 255, 255, 256, 256, 256, 257, 258, 511, 512])
    parts, size = [], 0
    unit = rng.choice([("byte[%d]", 1), ("uint64[%d]", 8), ("uint16[%d]", 2), ("address[%d]", 32)])
    n = target // unit[1]
    if rng.random() < .5 and n > 2:
        k = rng.randrange(1, n)
        parts += [unit[0] % k, unit[0] % (n - k)]
    else:
        parts.append(unit[0] % n)
    size = n * unit[1]
    while size < target:
        step = 2 if target - size >= 2 and rng.random() < .5 else 1
        parts.append("uint16" if step == 2 else rng.choice(["uint8", "byte"]))
        size += step
    rng.shuffle(parts)
    tail = [rng.choice(["address", "byte[5]", "uint64", "uint16[2]", "(uint8,uint16)", "string", "bool", "uint8[]"])]
    if rng.random() < .4:
        tail.append(rng.choice(["uint8", "string", "bool"]))
    return "(" + ",".join(parts + tail) + ")"


def small_shapes(max_size):
    """All type strings with at most max_size constructor nodes (arrays of length 0..2 and dynamic, tuples)."""
    memo = {1: list(LEAVES)}

    def shapes(n):
        if n in memo:
            return memo[n]
        out = []
        for t in shapes(n - 1):
            out.append(t + "[]")
            out.append(t + "[0]")
            out.append(t + "[2]")
        # tuples: 1 node + children sizes summing to n-1 (k children)
        rest = n - 1
        if rest == 0:
            out.append("()")
        for k in range(1, rest + 1):
            for sizes in _compositions(rest, k):
                for combo in itertools.product(*[shapes(s) for s in sizes]):
                    out.append("(" + ",".join(combo) + ")")
        memo[n] = out
        return out

    res = []
    for n in range(1, max_size + 1):
        res.extend(shapes(n))
    if max_size >= 1 and "()" not in res:
        res.append("()")
    return res


def _compositions(n, k):
    if k == 1:
        yield (n,)
        return
    for first in range(1, n - k + 2):
        for rest in _compositions(n - first, k - 1):
            yield (first,) + rest


STR_ALPHA = ["a", "b", "c", "X", "Y", "Z", " ", "0", "9", "\x00", "\x7f", "é", "\"", "\\", "\n"]


def rand_val(rng, t, dynlen=None):
    if isinstance(t, sabi.UintType):
        n = t.bit_size
        return rng.choice([0, 1, 2**n - 1, 2**(n - 1), 2**(n - 1) - 1, 255 % 2**n, 256 % 2**n, rng.randrange(2**n)])
    if isinstance(t, sabi.ByteType):
        return rng.choice([0, 255, 0x7f, 0x80, rng.randrange(256)])
    if isinstance(t, sabi.BoolType):
        return rng.random() < .5
    if isinstance(t, sabi.AddressType):
        return bytes(rng.choice([0, 255, rng.randrange(256)]) for _ in range(32))
    if isinstance(t, sabi.StringType):
        n = rng.choice([0, 0, 1, 2, 3, 5, 8, 40]) if dynlen is None else dynlen
        return "".join(rng.choice(STR_ALPHA) for _ in range(n))
    if isinstance(t, sabi.ArrayStaticType):
        return [rand_val(rng, t.child_type) for _ in range(t.static_length)]
    if isinstance(t, sabi.ArrayDynamicType):
        n = rng.choice([0, 1, 2, 3, 8, 9]) if dynlen is None else dynlen
        if not isinstance(t.child_type, (sabi.BoolType, sabi.ByteType, sabi.UintType)):
            n = min(n, 3)
        return [rand_val(rng, t.child_type) for _ in range(n)]
    if isinstance(t, sabi.TupleType):
        return [rand_val(rng, c) for c in t.child_types]
    raise Exception(t)


def sdk(tstr):
    return sabi.ABIType.from_string(tstr)


def direct_spec(pt, st):
    """Build the PyTeal TypeSpec with the TypeSpec constructors (not via type_spec_from_algosdk)."""
    abi = pt.abi
    if isinstance(st, sabi.UintType):
        return {8: abi.Uint8TypeSpec, 16: abi.Uint16TypeSpec, 32: abi.Uint32TypeSpec, 64: abi.Uint64TypeSpec}[st.bit_size]()
    if isinstance(st, sabi.ByteType):
        return abi.ByteTypeSpec()
    if isinstance(st, sabi.BoolType):
        return abi.BoolTypeSpec()
    if isinstance(st, sabi.AddressType):
        return abi.AddressTypeSpec()
    if isinstance(st, sabi.StringType):
        return abi.StringTypeSpec()
    if isinstance(st, sabi.ArrayStaticType):
        return abi.StaticArrayTypeSpec(direct_spec(pt, st.child_type), st.static_length)
    if isinstance(st, sabi.ArrayDynamicType):
        return abi.DynamicArrayTypeSpec(direct_spec(pt, st.child_type))
    if isinstance(st, sabi.TupleType):
        return abi.TupleTypeSpec(*[direct_spec(pt, c) for c in st.child_types])
    raise Exception(st)


def spec_of(pt, st, how=0):
    if how % 2 == 0:
        return pt.abi.type_spec_from_algosdk(st)
    return direct_spec(pt, st)


def build_set(pt, ts, st, val, out, rng, computed=None):
    """Return the list of Exprs that set ABI instance `out` (PyTeal spec ts / sdk type st) to val.
    Spellings are chosen by rng: Python literal, Expr, copy from another instance, computed value."""
    abi = pt.abi
    r = rng.random()

    def via_copy(mk):
        other = ts.new_instance()
        return mk(other) + [out.set(other)]

    if isinstance(st, (sabi.UintType, sabi.ByteType)):
        if r < .35:
            return [out.set(val)]
        if r < .7:
            return [out.set(pt.Int(val))]
        if r < .85:
            return via_copy(lambda o: [o.set(val)])
        if computed is not None and isinstance(st, sabi.UintType) and st.bit_size == 64:
            return [out.set(computed(val))]
        return [out.set(pt.Btoi(pt.Bytes(val.to_bytes(8, "big"))))]
    if isinstance(st, sabi.BoolType):
        if r < .4:
            return [out.set(bool(val))]
        if r < .8:
            return [out.set(pt.Int(rng.choice([1, 7, 2**64 - 1]) if val else 0))]
        return via_copy(lambda o: [o.set(bool(val))])
    if isinstance(st, sabi.AddressType):
        if r < .3:
            return [out.set(pt.Bytes(val))]
        if r < .6:
            return [out.set(val)]
        if r < .75:
            from algosdk import encoding
            return [out.set(encoding.encode_address(val))]
        return via_copy(lambda o: [o.set(val)])
    if isinstance(st, sabi.StringType):
        if r < .4:
            return [out.set(pt.Bytes(val.encode()))]
        if r < .7:
            return [out.set(val)]
        if r < .85:
            return [out.set(val.encode())]
        return via_copy(lambda o: [o.set(val)])
    if isinstance(st, (sabi.ArrayStaticType, sabi.ArrayDynamicType)):
        if isinstance(st.child_type, sabi.ByteType) and r < .4 and type(out).__name__ in ("StaticBytes", "DynamicBytes"):
            if r < .2:
                return [out.set(bytes(val))]
            return [out.set(pt.Bytes(bytes(val)))]
        elems = [ts.value_type_spec().new_instance() for _ in val]
        ex = []
        for e, v in zip(elems, val):
            ex += build_set(pt, ts.value_type_spec(), st.child_type, v, e, rng, computed)
        if r > .9:
            other = ts.new_instance()
            return ex + [other.set(elems), out.set(other)]
        return ex + [out.set(elems)]
    if isinstance(st, sabi.TupleType):
        elems = [s.new_instance() for s in ts.value_type_specs()]
        ex = []
        for e, s, c, v in zip(elems, ts.value_type_specs(), st.child_types, val):
            ex += build_set(pt, s, c, v, e, rng, computed)
        return ex + [out.set(*elems)]
    raise Exception(st)


def count_nodes(tstr):
    return tstr.count("(") + tstr.count("[") + sum(tstr.count(l) for l in ("bool", "byte", "uint", "address", "string"))
