"""Generator of Python *source files* that build PyTeal programs, for the source-map check (C15).

Every physical line that writes a constant writes a unique marker constant that encodes (file index, line number):
Int(1_000_000 * (file+1) + line) or Bytes("m<file>_<line>").  generate(rng, dir) writes 1..3 modules and returns a description:
  {"main": module name, "files": [paths], "entry": "program" | "router", "version": v, "mode": ...}
The modules only use the public API (import pyteal as pt).  Never imports pyteal itself.
"""
import os


class Src:
    def __init__(self, findex, name):
        self.findex, self.name = findex, name
        self.lines = ["import pyteal as pt", ""]

    def lineno(self):
        return len(self.lines) + 1  # 1-based number of the next line to be appended

    def add(self, text=""):
        self.lines.append(text)

    def pad(self, rng, big=False):
        n = rng.choice([0, 0, 1, 2, 5]) if not big else rng.choice([300, 700, 1500, 5200])
        for i in range(n):
            self.lines.append("# filler %d" % i if i % 3 else "")

    def int_marker(self, line=None):
        return "pt.Int(%d)" % (1_000_000 * (self.findex + 1) + (line or self.lineno()))

    def bytes_marker(self, line=None):
        return 'pt.Bytes("m%d_%d")' % (self.findex, line or self.lineno())


def gen_helper(rng, src, k):
    """A subroutine (decorator form) whose body spans several lines."""
    src.pad(rng)
    kind = rng.choice(["u", "u", "none", "abi"])
    name = "helper%d_%d" % (src.findex, k)
    if kind == "u":
        src.add("@pt.Subroutine(pt.TealType.uint64)")
        src.add("def %s(x):" % name)
        if rng.random() < .5:
            src.add("    return x + %s" % src.int_marker())
        else:
            src.add("    y = pt.ScratchVar(pt.TealType.uint64)")
            src.add("    return pt.Seq(")
            src.add("        y.store(x * %s)," % src.int_marker())
            src.add("        pt.If(y.load() > %s)" % src.int_marker())
            src.add("        .Then(pt.Log(%s))" % src.bytes_marker())
            src.add("        .Else(pt.Pop(%s))," % src.int_marker())
            src.add("        y.load() %% %s," % src.int_marker())
            src.add("    )")
        call = "%s(%%s)" % name
    elif kind == "none":
        src.add("@pt.Subroutine(pt.TealType.none)")
        src.add("def %s(x):" % name)
        src.add("    return pt.Seq(")
        for _ in range(rng.randrange(1, 4)):
            src.add("        pt.Log(pt.Concat(%s, pt.Itob(x)))," % src.bytes_marker())
        src.add("    )")
        call = "%s(%%s)" % name
    else:
        src.add("@pt.ABIReturnSubroutine")
        src.add("def %s(a: pt.abi.Uint64, *, output: pt.abi.Uint64):" % name)
        src.add("    return output.set(")
        src.add("        a.get() + %s" % src.int_marker())
        src.add("    )")
        call = None
    src.add("")
    return {"name": name, "kind": kind, "module": src.name}


def stmt_lines(rng, src, helpers, indent, depth, tmp):
    """Append source lines for one statement expression (ending with a comma) at the given indentation."""
    pre = " " * indent
    r = rng.random()
    if depth <= 0 or r < .3:
        c = rng.random()
        if c < .06:
            # a source line that talks about importing pyteal (the frame filter recognises pyteal's own import lines by their text)
            src.add(pre + "pt.Pop(%s),  # TODO: import pyteal constants instead of this literal" % src.int_marker())
        elif c < .09:
            src.add(pre + "pt.Pop(__import__('pyteal').Int(%s)),  # from pyteal import Int" % src.int_marker()[7:-1])
        elif c < .3:
            src.add(pre + "pt.Pop(%s)," % src.int_marker())
        elif c < .5:
            src.add(pre + "pt.Log(%s)," % src.bytes_marker())
        elif c < .65:
            src.add(pre + "pt.Pop(")
            src.add(pre + "    %s" % src.int_marker())
            src.add(pre + "    + %s" % src.int_marker())
            src.add(pre + "),")
        elif c < .8:
            src.add(pre + "%s.store(%s)," % (tmp, src.int_marker()))
        elif c < .9:
            # comment texts with every character str.splitlines() treats as a line boundary (written as escapes in the source)
            txt = rng.choice(["c", "c", "two\\nlines", "vt\\x0bx", "ff\\x0cx", "fs\\x1cx", "gs\\x1dx", "rs\\x1ex", "nel\\x85x", "ls\\u2028x", "ps\\u2029x", "cr\\rx", "crlf\\r\\nx"])
            if rng.random() < .5:
                src.add(pre + "pt.Assert(%s, comment='%s')," % (src.int_marker(), txt))
            else:
                src.add(pre + "pt.Comment('%s', pt.Pop(%s))," % (txt, src.int_marker()))
        else:
            src.add(pre + "pt.App.globalPut(%s, %s)," % (src.bytes_marker(), src.int_marker()))
        return
    if r < .45:
        src.add(pre + "pt.If(%s)" % src.int_marker())
        src.add(pre + ".Then(")
        stmt_lines(rng, src, helpers, indent + 4, depth - 1, tmp)
        if rng.random() < .6:
            src.add(pre + ").Else(")
            stmt_lines(rng, src, helpers, indent + 4, depth - 1, tmp)
        src.add(pre + "),")
    elif r < .55:
        src.add(pre + "pt.Seq(")
        for _ in range(rng.randrange(1, 4)):
            stmt_lines(rng, src, helpers, indent + 4, depth - 1, tmp)
        src.add(pre + "),")
    elif r < .65:
        src.add(pre + "pt.Seq(*[pt.Pop(%s) for _ in range(%d)])," % (src.int_marker(), rng.choice([1, 2, 3])))
    elif r < .72:
        src.add(pre + "(lambda z: pt.Pop(z + %s))(%s)," % (src.int_marker(), src.int_marker()))
    elif r < .8:
        src.add(pre + "pt.While(%s.load() < %s).Do(" % (tmp, src.int_marker()))
        src.add(pre + "    pt.Seq(")
        src.add(pre + "        %s.store(%s.load() + %s)," % (tmp, tmp, src.int_marker()))
        stmt_lines(rng, src, helpers, indent + 8, depth - 1, tmp)
        src.add(pre + "    )")
        src.add(pre + "),")
    elif r < .86:
        src.add(pre + "pt.Cond(")
        src.add(pre + "    [%s, pt.Pop(%s)]," % (src.int_marker(), src.int_marker()))
        src.add(pre + "    [%s, pt.Log(%s)]," % (src.int_marker(), src.bytes_marker()))
        src.add(pre + "),")
    else:
        hs = [h for h in helpers if h["kind"] in ("u", "none")]
        if not hs:
            src.add(pre + "pt.Pop(%s)," % src.int_marker())
            return
        h = rng.choice(hs)
        q = ("%s.%s" % (h["module"], h["name"])) if h["module"] != src.name else h["name"]
        if h["kind"] == "u":
            src.add(pre + "pt.Pop(%s(%s))," % (q, src.int_marker()))
        else:
            src.add(pre + "%s(%s)," % (q, src.int_marker()))


def generate(rng, directory, tag):
    nfiles = rng.choice([1, 1, 2, 3])
    srcs = [Src(i, "sm_%s_%d" % (tag, i)) for i in range(nfiles)]
    helpers = []
    # helper modules first (index 1..), main module is index 0 and imports them
    for s in srcs[1:]:
        s.pad(rng, big=rng.random() < .25)
        for k in range(rng.randrange(1, 4)):
            helpers.append(gen_helper(rng, s, k))
    main = srcs[0]
    for s in srcs[1:]:
        main.add("import %s" % s.name)
    main.add("")
    main.pad(rng, big=rng.random() < .2)
    for k in range(rng.randrange(0, 3)):
        helpers.append(gen_helper(rng, main, k))
    entry = "router" if rng.random() < .3 else "program"
    repeats = {}
    mode = "app"
    version = rng.choice([5, 6, 7, 8, 9, 10]) if entry == "program" else rng.choice([6, 7, 8, 10])
    if entry == "program":
        main.add("def program():")
        main.add("    t = pt.ScratchVar(pt.TealType.uint64)")
        main.add("    return pt.Seq(")
        main.add("        t.store(%s)," % main.int_marker())
        # the same (non-marker) values written on several consecutive lines: each occurrence must be attributed to its own line
        # (with assembleConstants they become constant-block loads that look alike)
        for rep in range(rng.choice([0, 1, 1, 2])):
            val = 900_000_000 + rng.randrange(1000) * 10 + rep
            for _ in range(rng.choice([2, 3, 5])):
                repeats.setdefault(str(val), []).append([0, main.lineno()])
                main.add("        pt.Pop(pt.Int(%d))," % val)
        for _ in range(rng.randrange(1, 7)):
            if rng.random() < .15:
                main.pad(rng, big=rng.random() < .3)
            stmt_lines(rng, main, helpers, 8, rng.choice([1, 2, 2, 3]), "t")
        main.add("        %s," % main.int_marker())
        main.add("    )")
    else:
        main.add("def router():")
        bare = rng.choice(["approve", "sub", "sub", "expr"])
        if bare == "sub":
            main.add("    @pt.Subroutine(pt.TealType.none)")
            main.add("    def on_call():")
            main.add("        return pt.Log(%s)" % main.bytes_marker())
            main.add("")
            main.add("    bca = pt.BareCallActions(no_op=pt.OnCompleteAction.create_only(pt.Approve()), opt_in=pt.OnCompleteAction.call_only(on_call))")
        elif bare == "expr":
            main.add("    bca = pt.BareCallActions(no_op=pt.OnCompleteAction.create_only(pt.Approve()), opt_in=pt.OnCompleteAction.call_only(pt.Log(%s)))" % main.bytes_marker())
        else:
            main.add("    bca = pt.BareCallActions(no_op=pt.OnCompleteAction.create_only(pt.Approve()))")
        main.add("    r = pt.Router('gen', bca, clear_state=pt.Approve())")
        nm = rng.randrange(1, 4)
        for k in range(nm):
            main.add("")
            main.add("    @r.method")
            void = rng.random() < .4
            if void:
                main.add("    def meth%d(a: pt.abi.Uint64, b: pt.abi.String):" % k)
            else:
                main.add("    def meth%d(a: pt.abi.Uint64, b: pt.abi.Uint64, *, output: pt.abi.Uint64):" % k)
            main.add("        t = pt.ScratchVar(pt.TealType.uint64)")
            main.add("        return pt.Seq(")
            main.add("            t.store(a.get() + %s)," % main.int_marker())
            for _ in range(rng.randrange(0, 3)):
                stmt_lines(rng, main, helpers, 12, 1, "t")
            if void:
                main.add("            pt.Log(pt.Concat(b.get(), %s))," % main.bytes_marker())
            else:
                main.add("            output.set(t.load() * b.get() + %s)," % main.int_marker())
            main.add("        )")
        main.add("    return r")
    paths = []
    for s in srcs:
        p = os.path.join(directory, s.name + ".py")
        with open(p, "w") as f:
            f.write("\n".join(s.lines) + "\n")
        paths.append(p)
    return {"main": main.name, "files": paths, "entry": entry, "version": version, "mode": mode, "nlines": [len(s.lines) for s in srcs], "repeats": repeats,
            "assemble": version >= 3 and rng.random() < .4, "typetrack": not (entry == "program" and rng.random() < .25), "elsewhere": entry == "program" and rng.random() < .3}


def marker_of_int(n):
    """(file index, 1-based line) of an Int marker, or None."""
    if n >= 1_000_000 and n < 50_000_000:
        f, line = divmod(n, 1_000_000)
        if f >= 1 and line >= 1:
            return f - 1, line
    return None


def marker_of_bytes(b):
    try:
        s = b.decode()
    except Exception:
        return None
    if s.startswith("m") and "_" in s:
        a, _, l = s[1:].partition("_")
        if a.isdigit() and l.isdigit():
            return int(a), int(l)
    return None
