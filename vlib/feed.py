"""TEAL feeder shared by C04 (legality) and C05 (stack/type discipline): yields (source tag, mode, version, options, teal | error)
for programs compiled by the real compiler from many independent sources.  Worker-side.
"""
from . import recipes
from .common import PT_ERRORS, reset_globals


class Item:
    __slots__ = ("tag", "mode", "version", "opts", "teal", "err", "errtype", "pt_error", "desc", "anytype")

    def __init__(self, tag, mode, version, opts, desc):
        self.tag, self.mode, self.version, self.opts, self.desc = tag, mode, version, opts, desc
        self.teal = self.err = self.errtype = None
        self.pt_error = False
        self.anytype = False


def _compile(pt, item, make, assemble=False):
    reset_globals()
    try:
        prog = make()
        ss, fp = item.opts
        opt = pt.OptimizeOptions(scratch_slots=ss, frame_pointers=fp) if (ss is not None or fp is not None) else None
        item.teal = pt.compileTeal(prog, pt.Mode.Application if item.mode == "app" else pt.Mode.Signature, version=item.version,
                                   optimize=opt, assembleConstants=assemble)
    except PT_ERRORS as e:
        item.err, item.errtype, item.pt_error = str(e)[:300], type(e).__name__, True
    except RecursionError:
        item.err, item.errtype = "RecursionError", "RecursionError"
    except Exception as e:
        item.err, item.errtype = "%s: %s" % (type(e).__name__, str(e)[:300]), type(e).__name__
    return item


def rand_opts(rng, version):
    r = rng.random()
    if r < .4:
        return (None, None)
    if r < .6:
        return (False, False)
    if r < .8:
        return (False, True if version >= 8 else None)
    return (False, None)  # scratch-slot optimisation off: its known defect is C03's subject


def catalogue_items(pt, rng, shard, nshards, versions=range(2, 11)):
    """Every catalogue entry at every version in both modes (sharded)."""
    from . import opcatalog
    E = opcatalog.entries(pt)
    k = 0
    for ent in E:
        for v in versions:
            for mode in ("app", "sig"):
                k += 1
                if k % nshards != shard:
                    continue
                it = Item("catalogue", mode, v, (None, None), {"entry": ent[0], "assemble": bool(k % 3 == 0)})
                it.anytype = ent[0].startswith(("App.localGet", "App.globalGet", "ImportScratch")) or "Param." in ent[0] or "Holding." in ent[0]
                yield _compile(pt, it, (lambda ent=ent: opcatalog.wrap(pt, ent)), assemble=bool(k % 3 == 0))


def recipe_items(pt, rng, n):
    from . import build
    from .checks import c01, c02, c03
    for i in range(n):
        vgen = rng.choice([2, 3, 4, 5, 6, 7, 8, 9, 10])
        mode = "sig" if rng.random() < .25 else "app"
        r = rng.random()
        try:
            if r < .08:
                recipe, mode = c01.first_statement_family(rng), "app"
            elif r < .6:
                recipe = recipes.Gen(rng, version=vgen, mode=mode, min_subs=rng.choice([0, 0, 1]), call_bias=.04).program()
            elif r < .8 and mode == "app":
                recipe = c02.mutual_family(rng)
            elif mode == "app":
                recipe = c03.opt_family(rng, vgen)
            else:
                recipe = recipes.Gen(rng, version=vgen, mode=mode).program()
        except RecursionError:
            continue
        lo = recipes.min_version(recipe)
        # also below the documented minimum version now and then: must be rejected, or be legal anyway
        v = rng.choice(list(range(2, 11))) if rng.random() < .25 else rng.choice(list(range(max(lo, 2), 11)))
        it = Item("recipe", mode, v, rand_opts(rng, v), {"recipe": recipe})
        yield _compile(pt, it, (lambda recipe=recipe: build.build(recipe)), assemble=rng.random() < .2)


def label_items(pt, rng, n):
    """Whole-program label hazards: subroutine names that sanitise to equal / empty stems or look like opcodes or labels."""
    names = ["main", "main_l1", "l0", "err", "return", "b", "int", "", "a b", "a-b", "ab", "a_b", "0", "9x", "proto", "retsub", "é", "x" * 300,
             "main_l2", "callsub", "f", "f_0", "f_1", "f0", "_", "__", "F", "label:", "//c", "#pragma"]
    for i in range(n):
        k = rng.randrange(1, 5)
        chosen = [rng.choice(names) for _ in range(k)]
        v = rng.choice([4, 5, 6, 7, 8, 9, 10])
        mode = rng.choice(["app", "sig"])

        def make(chosen=chosen):
            subs = []
            def mk(j, nm):
                def body(x):
                    return pt.If(x > pt.Int(j)).Then(x + pt.Int(j)).Else(pt.Int(j))
                return pt.Subroutine(pt.TealType.uint64, name=nm)(body)
            for j, nm in enumerate(chosen):
                subs.append(mk(j, nm))
            e = pt.Int(1)
            for f in subs:
                e = e + f(pt.Int(2))
            i2 = pt.ScratchVar(pt.TealType.uint64)
            return pt.Seq(i2.store(pt.Int(0)), pt.While(i2.load() < pt.Int(2)).Do(i2.store(i2.load() + pt.Int(1))), e)
        it = Item("labels", mode, v, rand_opts(rng, v), {"names": chosen})
        yield _compile(pt, it, make)


def immediate_items(pt, rng, n):
    """Immediates on both sides of their encoding range."""
    vals = [0, 1, 15, 16, 127, 128, 254, 255, 256, 257, 300, 65535, 65536]
    kinds = ["txna", "gtxn", "gtxna", "arg", "slot", "substring", "extract", "suffix", "gload", "gaid", "gitxn", "itxna", "importscratch", "nslots"]
    for i in range(n):
        kind = rng.choice(kinds)
        a, b = rng.choice(vals), rng.choice(vals)
        v = rng.choice([5, 6, 7, 8, 9, 10])
        mode = "sig" if kind == "arg" else rng.choice(["app", "app", "sig"])

        def make(kind=kind, a=a, b=b):
            I, B = pt.Int, pt.Bytes
            if kind == "txna":
                e = pt.Txn.application_args[a]
            elif kind == "gtxn":
                e = pt.Itob(pt.Gtxn[a].fee())
            elif kind == "gtxna":
                e = pt.Gtxn[a % 16].application_args[b]
            elif kind == "arg":
                e = pt.Arg(a)
            elif kind == "slot":
                s = pt.ScratchVar(pt.TealType.bytes, a)
                e = pt.Seq(s.store(B("x")), s.load())
            elif kind == "substring":
                e = pt.Substring(pt.BytesZero(I(70000 % 4096)), I(min(a, b)), I(max(a, b)))
            elif kind == "extract":
                e = pt.Extract(pt.BytesZero(I(4000)), I(a), I(b))
            elif kind == "suffix":
                e = pt.Suffix(pt.BytesZero(I(4000)), I(a))
            elif kind == "nslots":
                # programs on both sides of the 256-slot limit (automatic and requested ids mixed): accepted ones may only name slots 0..255
                n = {0: 255, 1: 256, 15: 257, 16: 257, 127: 258}.get(a, 257 if a % 2 else 256)
                nreq = b % 60
                vs = [pt.ScratchVar(pt.TealType.uint64, 2 * j + 1) for j in range(nreq)] + [pt.ScratchVar(pt.TealType.uint64) for _ in range(n - nreq)]
                if b % 3 == 1:
                    # the same number of variables spread over two routines, neither of which exceeds the limit alone
                    cut = 40 + (a + b) % 150
                    mine, other = vs[:cut], vs[cut:]

                    @pt.Subroutine(pt.TealType.uint64)
                    def rest():
                        return pt.Seq(*[v.store(I(7)) for v in other], pt.Add(I(0), I(0), *[v.load() for v in other]))
                    e = pt.Seq(*[v.store(I(7)) for v in mine], pt.Itob(pt.Add(I(0), rest(), *[v.load() for v in mine])))
                else:
                    e = pt.Seq(*[v.store(I(7)) for v in vs], pt.Itob(pt.Add(I(0), I(0), *[v.load() for v in vs])))
            elif kind == "gload":
                e = pt.Itob(pt.Btoi(pt.Itob(pt.ImportScratchValue(a, b))))
            elif kind == "gaid":
                e = pt.Itob(pt.GeneratedID(a))
            elif kind == "gitxn":
                e = pt.Itob(pt.Gitxn[a].fee())
            elif kind == "itxna":
                e = pt.InnerTxn.application_args[a]
            else:
                e = pt.Itob(pt.Btoi(pt.Itob(pt.ImportScratchValue(I(a), b))))
            return pt.Seq(pt.Pop(e), I(1))
        it = Item("immediates", mode, v, (None, None), {"kind": kind, "a": a, "b": b})
        it.anytype = kind in ("gload", "importscratch")
        yield _compile(pt, it, make, assemble=rng.random() < .3)


def router_items(pt, rng, n):
    from .checks import c08
    for i in range(n):
        cfg = c08.gen_config(rng)
        for v in cfg["versions"]:
            reset_globals()
            for which in (0, 1):
                it = Item("router", "app", v, (None, None), {"config": cfg, "program": "approval" if which == 0 else "clear"})
                try:
                    r, _ = c08.build_router(pt, cfg)
                    res = r.compile_program(version=v, assemble_constants=bool(i % 2))
                    it.teal = res[which]
                except PT_ERRORS as e:
                    it.err, it.errtype, it.pt_error = str(e)[:300], type(e).__name__, True
                except Exception as e:
                    it.err, it.errtype = "%s: %s" % (type(e).__name__, str(e)[:300]), type(e).__name__
                yield it


def abi_items(pt, rng, n):
    """ABI set/encode programs (C06's builders) as TEAL sources with deep temporaries."""
    from . import abigen
    for i in range(n):
        ts = abigen.rand_type(rng, maxdepth=3)
        st = abigen.sdk(ts)
        val = abigen.rand_val(rng, st)
        v = rng.choice([5, 6, 7, 8, 9, 10])
        insub = rng.random() < .5

        def make(ts=ts, st=st, val=val, insub=insub, i=i):
            r2 = __import__("random").Random(i)
            spec = abigen.spec_of(pt, st)
            if insub:
                @pt.Subroutine(pt.TealType.bytes)
                def enc():
                    out = spec.new_instance()
                    return pt.Seq(*abigen.build_set(pt, spec, st, val, out, r2), out.encode())
                return pt.Seq(pt.Log(enc()), pt.Int(1))
            out = spec.new_instance()
            return pt.Seq(*abigen.build_set(pt, spec, st, val, out, r2), pt.Log(out.encode()), pt.Int(1))
        it = Item("abi", "app", v, rand_opts(rng, v), {"type": ts, "in_subroutine": insub})
        yield _compile(pt, it, make)


def corpus_items(pt, rng, shard, nshards):
    """The repository's example programs at every version from their own minimum, under every option setting (sharded)."""
    from . import corpus
    k = 0
    for ent in corpus.entries(pt):
        name, mode, minv, thunk = ent
        for v in range(minv, 11):
            for ss, fp in ((None, None), (False, False), (True, None), (False, True if v >= 8 else None)):
                k += 1
                if k % nshards != shard:
                    continue
                reset_globals()
                base = Item("corpus", mode, v, (ss, fp), {"entry": name, "assemble": bool(k % 3 == 0)})
                try:
                    texts = corpus.compile_entry(pt, ent, v, ss, fp, assemble=bool(k % 3 == 0))
                except PT_ERRORS as e:
                    base.err, base.errtype, base.pt_error = str(e)[:300], type(e).__name__, True
                    yield base
                    continue
                except Exception as e:
                    base.err, base.errtype = "%s: %s" % (type(e).__name__, str(e)[:300]), type(e).__name__
                    yield base
                    continue
                for label, teal in texts:
                    it = Item("corpus", mode, v, (ss, fp), {"entry": label, "assemble": bool(k % 3 == 0)})
                    it.teal = teal
                    it.anytype = True  # the examples read application state (anytype)
                    yield it


def sequence_items(pt, rng, n):
    """Several programs compiled one after the other in this process that share subroutine *objects* (and whose subroutines share
    one Python name, as factory closures do): what a compilation leaves on a subroutine must not leak into the next program."""
    for i in range(n):
        reset_globals()
        names = rng.choice([["helper"] * 4, ["helper", "_helper", "helper_", "he-lper"], ["a", "b", "a", "b"], ["f0", "f1", "f2", "f3"]])

        def mk(j, nm):
            def body(x):
                return x * pt.Int(3) + pt.Int(j + 1)
            body.__name__ = "helper"
            return pt.Subroutine(pt.TealType.uint64, name=nm if rng.random() < .5 else None)(body)
        pool = [mk(j, names[j]) for j in range(4)]
        v = rng.choice([4, 5, 6, 7, 8, 9, 10])
        for step in range(rng.choice([2, 3, 4])):
            chosen = rng.sample(range(4), rng.choice([1, 2, 3, 4]))

            def make(chosen=chosen):
                e = pt.Int(1)
                for j in chosen:
                    e = e + pool[j](pt.Int(2 + j))
                return e
            it = Item("sequence", rng.choice(["app", "sig"]), v, rand_opts(rng, v), {"names": names, "step": step, "chosen": chosen})
            yield _compile(pt, it, make)


def tail_items(pt, rng, n):
    """Routines whose *last* statement is a conditional with arms that leave the routine and arms that do not, in every order
    (Cond / If-Else / ElseIf chains; Return, Approve, Reject, Err as the leaving statement), in void subroutines, value-returning
    subroutines and the main routine, with another subroutine placed behind them: control must never run off a routine's end."""
    I, B = pt.Int, pt.Bytes
    for i in range(n):
        reset_globals()
        v = rng.choice([4, 5, 6, 7, 8, 9, 10])
        narms = rng.choice([2, 2, 3, 4])
        leaving = [rng.random() < .5 for _ in range(narms)]
        if all(leaving) or not any(leaving):
            leaving[rng.randrange(narms)] = not leaving[0]
        form = rng.choice(["cond", "cond", "ifelse", "elseif"])
        where = rng.choice(["void_sub", "void_sub", "value_sub", "main"])
        exit_kind = rng.choice(["return", "return", "approve", "reject", "err"])
        arg = pt.Btoi(pt.Txn.application_args[0]) if True else None

        def make(leaving=leaving, form=form, where=where, exit_kind=exit_kind, narms=narms):
            def leave(val):
                if exit_kind == "return":
                    return pt.Return(val) if val is not None else pt.Return()
                return {"approve": pt.Approve(), "reject": pt.Reject(), "err": pt.Err()}[exit_kind]

            def stay(j):
                return pt.App.globalPut(B("k%d" % j), I(j))

            def tail(val):
                arms = [leave(val) if leaving[j] else stay(j) for j in range(narms)]
                cs = [pt.Btoi(pt.Txn.application_args[0]) == I(j) for j in range(narms)]
                if form == "cond":
                    return pt.Cond(*[[cs[j] if j < narms - 1 else I(1), arms[j]] for j in range(narms)])
                if form == "ifelse" or narms == 2:
                    return pt.If(cs[0]).Then(arms[0]).Else(arms[1] if narms == 2 else pt.Seq(arms[1]))
                e = pt.If(cs[0]).Then(arms[0])
                for j in range(1, narms - 1):
                    e = e.ElseIf(cs[j]).Then(arms[j])
                return e.Else(arms[-1])

            @pt.Subroutine(pt.TealType.uint64)
            def behind(x):
                return x + I(1)
            if where == "void_sub":
                def body():
                    return pt.Seq(pt.App.globalPut(B("e"), I(1)), tail(None))
                body.__name__ = "tailed"
                f = pt.Subroutine(pt.TealType.none)(body)
                return pt.Seq(f(), pt.Pop(behind(I(1))), I(1))
            if where == "value_sub":
                def body2():
                    # the staying arms fall through to the value after the conditional
                    return pt.Seq(pt.App.globalPut(B("e"), I(1)), tail(I(7)), I(9))
                body2.__name__ = "tailed"
                f = pt.Subroutine(pt.TealType.uint64)(body2)
                return pt.Seq(pt.Pop(f()), pt.Pop(behind(I(1))), I(1))
            return pt.Seq(pt.Pop(behind(I(1))), tail(I(1)), I(1))
        it = Item("tail", "app", v, rand_opts(rng, v), {"form": form, "where": where, "exit": exit_kind, "leaving": leaving})
        yield _compile(pt, it, make)


def declared_type_items(pt, rng):
    """Subroutines of every declared return type (none / uint64 / bytes / anytype, one of them recursive) called with pending
    operands, at every calling convention."""
    from .checks import c02
    for v, fp in ((4, None), (5, None), (7, None), (8, None), (8, False), (9, None), (10, None), (10, True)):
        it = Item("declared_type", "app", v, (False, fp), {"version": v, "fp": fp})
        it.anytype = True
        yield _compile(pt, it, lambda: c02.declared_type_program(pt))


def boundary_immediate_items(pt, shard, nshards):
    """Deterministic sweep of the slicing constructors over the values where a one-byte immediate starts and stops fitting: every
    (start, end/length) pair over {0, 1, 2, 254, 255, 256, 257, 300} for Substring / Extract / Suffix, at every version."""
    I = pt.Int
    vals = [0, 1, 2, 254, 255, 256, 257, 300]
    k = 0
    for kind in ("substring", "extract", "suffix"):
        for a in vals:
            for b in (vals if kind != "suffix" else [0]):
                if kind == "substring" and b < a:
                    continue
                for v in (2, 3, 4, 5, 6, 8, 10):
                    k += 1
                    if k % nshards != shard:
                        continue

                    def make(kind=kind, a=a, b=b):
                        src = pt.BytesZero(I(700)) if True else None
                        if kind == "substring":
                            e = pt.Substring(src, I(a), I(b))
                        elif kind == "extract":
                            e = pt.Extract(src, I(a), I(b))
                        else:
                            e = pt.Suffix(src, I(a))
                        return pt.Seq(pt.Pop(e), I(1))
                    it = Item("immediates", "app" if k % 3 else "sig", v, (None, None), {"kind": "boundary_" + kind, "a": a, "b": b})
                    yield _compile(pt, it, make, assemble=(k % 4 == 0 and v >= 3))


def constant_block_items(pt, shard, nshards):
    """Deterministic sweep around the 256-entry capacity of the constant blocks: n distinct byte (or int) constants, each used twice,
    compiled with assembleConstants - every `bytec`/`intc` index has to fit its one-byte immediate and lie inside the block."""
    k = 0
    for kind in ("bytes", "ints"):
        for n in (255, 256, 257, 260):
            for v in (3, 6, 10):
                k += 1
                if k % nshards != shard:
                    continue

                def make(kind=kind, n=n):
                    if kind == "bytes":
                        lits = [pt.Bytes("c%05d" % i) for i in range(n)]
                    else:
                        lits = [pt.Int(100000 + i) for i in range(n)]
                    return pt.Seq(*[pt.Pop(x) for x in lits], *[pt.Pop(x) for x in lits], pt.Int(1))
                it = Item("immediates", "app" if k % 2 else "sig", v, (None, None), {"kind": "constant_block_" + kind, "n": n})
                yield _compile(pt, it, make, assemble=True)
