"""Reference AVM interpreter for the TEAL subset PyTeal emits, with sanitizers and an event log.

Never imports pyteal.  Semantics of individual ops live in prims.py (shared with the recipe evaluator).

Sanitizers (all on by default, results in Result.san):
  * type / stack: operand types per op, underflow, 1000-slot overflow, dig/cover/uncover/bury ranges
  * frame:        proto only directly after callsub, frame_dig/frame_bury inside the stack, retsub arity
  * heights:      for every pc, the stack height relative to the current routine's entry must be the
                  same on every visit (dynamic form of the lexical stack discipline)
  * boundary:     at callsub the stack is snapshotted; after the matching retsub everything below the
                  callee's low-water mark must be identical (same objects), and when the arity/return
                  count of the routine is known (proto, or routine_info from the harness) exactly that
                  many values were consumed / produced
  * slots:        reads of a scratch slot before any write in this execution are logged
"""
from dataclasses import dataclass, field

from . import prims as P
from .prims import Panic
from .tealgrammar import (ParseError, Program, decode_address, method_selector, parse, parse_any, parse_bytes_args,
                          parse_int)

ZERO_ADDR = bytes(32)


class Unsupported(Exception):
    """Op outside the interpreter's subset: the case is dropped, never alarmed."""


class Timeout(Exception):
    pass


@dataclass
class Ctx:
    mode: str = "app"  # "app" | "sig"
    group: list = field(default_factory=lambda: [{}])
    gi: int = 0
    args: list = field(default_factory=list)  # lsig args
    globals_: dict = field(default_factory=dict)
    app_global: dict = field(default_factory=dict)
    app_local: dict = field(default_factory=dict)  # (addr,key)->value
    opted_in: set = field(default_factory=set)
    balances: dict = field(default_factory=dict)
    boxes: dict = field(default_factory=dict)
    assets: dict = field(default_factory=dict)  # asset id -> params dict
    holdings: dict = field(default_factory=dict)  # (addr, asset) -> {"AssetBalance":..,"AssetFrozen":..}
    apps: dict = field(default_factory=dict)  # app id -> params dict
    accts: dict = field(default_factory=dict)  # addr -> params dict
    gscratch: dict = field(default_factory=dict)  # group index -> 256-list
    gaids: dict = field(default_factory=dict)
    app_id: int = 77
    # outputs
    logs: list = field(default_factory=list)
    inner: list = field(default_factory=list)
    trace: list = field(default_factory=list)

    def clone(self):
        import copy
        return copy.deepcopy(self)


ARRAY_FIELDS = {"ApplicationArgs", "Accounts", "Assets", "Applications", "Logs", "ApprovalProgramPages",
                "ClearStateProgramPages"}
BYTES_FIELDS = {"Sender", "Note", "Lease", "Receiver", "CloseRemainderTo", "VotePK", "SelectionPK", "Type", "AssetSender",
                "AssetReceiver", "AssetCloseTo", "TxID", "ApprovalProgram", "ClearStateProgram", "RekeyTo",
                "ConfigAssetUnitName", "ConfigAssetName", "ConfigAssetURL", "ConfigAssetMetadataHash", "ConfigAssetManager",
                "ConfigAssetReserve", "ConfigAssetFreeze", "ConfigAssetClawback", "FreezeAssetAccount", "LastLog",
                "StateProofPK"}
ADDR_FIELDS = {"Sender", "Receiver", "CloseRemainderTo", "AssetSender", "AssetReceiver", "AssetCloseTo", "RekeyTo",
               "ConfigAssetManager", "ConfigAssetReserve", "ConfigAssetFreeze", "ConfigAssetClawback", "FreezeAssetAccount",
               "TxID", "Lease", "VotePK", "SelectionPK", "ConfigAssetMetadataHash"}


def txn_field(ctx, t, f, idx=None):
    if f in ARRAY_FIELDS:
        if idx is None:
            raise Panic("array field %s without index" % f)
        lst = list(t.get(f, []))
        if f == "Accounts":
            lst = [t.get("Sender", ZERO_ADDR)] + lst
        if f == "Applications":
            lst = [t.get("ApplicationID", 0)] + lst
        if idx >= len(lst):
            raise Panic("invalid %s index %d" % (f, idx))
        return lst[idx]
    if idx is not None:
        raise Panic("non-array field %s with index" % f)
    if f == "NumAppArgs":
        return len(t.get("ApplicationArgs", []))
    if f == "NumAccounts":
        return len(t.get("Accounts", []))
    if f == "NumAssets":
        return len(t.get("Assets", []))
    if f == "NumApplications":
        return len(t.get("Applications", []))
    if f == "NumLogs":
        return len(t.get("Logs", []))
    if f == "NumApprovalProgramPages":
        return len(t.get("ApprovalProgramPages", []))
    if f == "NumClearStateProgramPages":
        return len(t.get("ClearStateProgramPages", []))
    if f == "GroupIndex":
        for i, g in enumerate(ctx.group):
            if g is t:
                return i
        return 0
    if f in t:
        return t[f]
    if f == "Type":
        te = t.get("TypeEnum", 0)
        return [b"unknown", b"pay", b"keyreg", b"acfg", b"axfer", b"afrz", b"appl"][te] if te < 7 else b""
    if f in ADDR_FIELDS:
        return ZERO_ADDR
    if f in BYTES_FIELDS:
        return b""
    return 0


def global_field(ctx, f):
    g = ctx.globals_
    if f in g:
        return g[f]
    d = {"MinTxnFee": 1000, "MinBalance": 100000, "MaxTxnLife": 1000, "ZeroAddress": ZERO_ADDR, "GroupSize": len(ctx.group),
         "LogicSigVersion": 10, "Round": 1000, "LatestTimestamp": 1700000000, "CurrentApplicationID": ctx.app_id,
         "CreatorAddress": b"C" * 32, "CurrentApplicationAddress": b"A" * 32, "GroupID": b"G" * 32, "OpcodeBudget": 700,
         "CallerApplicationID": 0, "CallerApplicationAddress": ZERO_ADDR, "AssetCreateMinBalance": 100000,
         "AssetOptInMinBalance": 100000, "GenesisHash": b"H" * 32}
    if f not in d:
        raise Unsupported("global " + f)
    return d[f]


def gtxn(ctx, t, f, idx=None):
    if t >= len(ctx.group):
        raise Panic("gtxn lookup TxnGroup[%d] but it only has %d" % (t, len(ctx.group)))
    return txn_field(ctx, ctx.group[t], f, idx)


@dataclass
class Frame:
    retpc: int
    height: int  # stack height at callsub (args included)
    label: str
    clear: bool = False
    args: int = 0
    returns: int = 0
    low: int = 0  # low-water mark of the stack while this frame is active
    snap: tuple = ()


@dataclass
class Result:
    status: str  # "approve" | "reject" | "fail"
    ret: object = None
    error: str = ""
    logs: list = None
    inner: list = None
    state: dict = None
    scratch: list = None
    steps: int = 0
    trace: list = None
    san: list = None  # sanitizer reports [(kind, detail)]
    uninit_reads: list = None
    calls: list = None  # (label, nargs_consumed, nresults) per completed call
    final_stack: list = None
    max_depth: int = 0

    @property
    def error_kind(self):
        e = self.error
        if not e:
            return ""
        if e.startswith("type:") or "cannot compare" in e:
            return "type"
        if "underflow" in e or "stack size" in e or "outside stack" in e or "stack len" in e or "stack finished" in e:
            return "stack"
        if e.startswith("assert failed"):
            return "assert"
        if e.startswith("err opcode"):
            return "err"
        if "proto" in e or "retsub" in e or "frame_" in e or "callstack" in e:
            return "frame"
        return "other"


def _cmp(f):
    return lambda x, y: int(f(P.u64(x), P.u64(y)))


def _bcmp(f):
    return lambda x, y: int(f(P._bi(x), P._bi(y)))


BIN = {
    "+": P.add, "-": P.sub, "*": P.mul, "/": P.div, "%": P.mod, "exp": P.exp, "shl": P.shl, "shr": P.shr,
    "<": _cmp(lambda x, y: x < y), ">": _cmp(lambda x, y: x > y), "<=": _cmp(lambda x, y: x <= y),
    ">=": _cmp(lambda x, y: x >= y),
    "&&": _cmp(lambda x, y: x != 0 and y != 0), "||": _cmp(lambda x, y: x != 0 or y != 0),
    "==": P.eq, "!=": lambda x, y: 1 - P.eq(x, y),
    "|": lambda x, y: P.u64(x) | P.u64(y), "&": lambda x, y: P.u64(x) & P.u64(y), "^": lambda x, y: P.u64(x) ^ P.u64(y),
    "concat": P.concat, "getbit": P.getbit, "getbyte": P.getbyte,
    "b+": P.badd, "b-": P.bsub, "b*": P.bmul, "b/": P.bdiv, "b%": P.bmod, "b|": P.bor, "b&": P.band, "b^": P.bxor,
    "b<": _bcmp(lambda x, y: x < y), "b>": _bcmp(lambda x, y: x > y), "b<=": _bcmp(lambda x, y: x <= y),
    "b>=": _bcmp(lambda x, y: x >= y), "b==": _bcmp(lambda x, y: x == y), "b!=": _bcmp(lambda x, y: x != y),
}
UN = {
    "!": lambda x: int(P.u64(x) == 0), "~": lambda x: P.u64(x) ^ (2**64 - 1), "len": lambda b: len(P.byt(b)),
    "itob": P.itob, "btoi": P.btoi, "sqrt": P.isqrt, "bitlen": P.bitlen, "bzero": P.bzero, "b~": P.bnot, "bsqrt": P.bsqrt,
    "sha256": P.sha256, "sha512_256": P.sha512_256, "keccak256": P.keccak256, "sha3_256": P.sha3_256,
}
UNSUPPORTED_OPS = {"ed25519verify", "ed25519verify_bare", "ecdsa_verify", "ecdsa_pk_decompress", "ecdsa_pk_recover",
                   "vrf_verify", "block", "json_ref", "base64_decode", "ec_add", "ec_scalar_mul", "ec_pairing_check",
                   "ec_multi_scalar_mul", "ec_subgroup_check", "ec_map_to", "mimc", "voter_params_get", "online_stake",
                   "switch", "match", "pushints", "pushbytess"}


U8_ARGS = {"substring": (0, 1), "extract": (0, 1), "dig": (0,), "cover": (0,), "uncover": (0,), "bury": (0,), "popn": (0,),
           "dupn": (0,), "load": (0,), "store": (0,), "intc": (0,), "bytec": (0,), "arg": (0,), "txna": (1,), "gtxn": (0,),
           "gtxna": (0, 2), "gtxnas": (0,), "gtxnsa": (1,), "itxna": (1,), "gitxn": (0,), "gitxna": (0, 2), "gitxnas": (0,),
           "gload": (0, 1), "gloads": (0,), "gaid": (0,), "replace2": (0,), "proto": (0, 1)}
I8_ARGS = {"frame_dig": (0,), "frame_bury": (0,)}


def assemble_errors(prog):
    """What the assembler would refuse before the program ever runs: immediates that do not fit their encoding.
    (Cached on the program object.)"""
    cached = getattr(prog, "_asm_errors", None)
    if cached is not None:
        return cached
    errs = []
    for I in prog.instrs:
        pos = U8_ARGS.get(I.op)
        lo, hi = 0, 255
        if pos is None:
            pos = I8_ARGS.get(I.op)
            lo, hi = -128, 127
        if pos is None:
            continue
        for k in pos:
            if k >= len(I.args):
                errs.append("line %d: %s expects an immediate #%d" % (I.line, I.op, k))
                continue
            try:
                v = int(I.args[k])
            except ValueError:
                errs.append("line %d: %s immediate %r is not a number" % (I.line, I.op, I.args[k]))
                continue
            if not lo <= v <= hi:
                errs.append("line %d: %s immediate %d does not fit its one-byte encoding" % (I.line, I.op, v))
    prog._asm_errors = errs
    return errs


def run(prog: Program, ctx: Ctx, max_steps=200000, routine_info=None, sanitize=True, trace_calls=False):
    """Execute prog on ctx (ctx is mutated: logs, state, inner).  routine_info: callable label -> (nargs, nrets) or None."""
    stack = []
    scratch = [0] * 256
    written = [False] * 256
    uninit = []
    callstack = []
    calls = []
    intc, bytec = [], []
    itxn_cur = None
    last_inner = None
    ins = prog.instrs
    pc = 0
    steps = 0
    from_callsub = False
    txn = ctx.group[ctx.gi]
    san = []
    heights = {}  # pc -> relative height
    low = [0]  # low-water mark for main routine
    maxdepth = 0

    def report(kind, detail):
        if len(san) < 20:
            san.append((kind, detail))

    def pop():
        if not stack:
            raise Panic("stack underflow")
        x = stack.pop()
        n = len(stack)
        if callstack:
            f = callstack[-1]
            if n < f.low:
                f.low = n
        return x

    def push(x):
        if isinstance(x, bytes) and len(x) > 4096:
            raise Panic("byte string too long")
        stack.append(x)
        if len(stack) > 1000:
            raise Panic("stack overflow")

    def popi():
        return P.u64(pop())

    def popb():
        return P.byt(pop())

    def target(lab):
        if lab not in prog.labels:
            raise ParseError("undefined label " + lab)
        return prog.labels[lab]

    def resolve_acct(a):
        if isinstance(a, int):
            return txn_field(ctx, txn, "Accounts", a)
        if len(a) != 32:
            raise Panic("invalid account address")
        return a

    def resolve_app(a):
        # go-algorand appReference: 0 is always the current app; v4+ accepts ids first, then indices; older versions indices only
        fa = list(txn.get("Applications", []))
        if a == 0 or a == ctx.app_id:
            return ctx.app_id
        if prog.version >= 4:
            if a in fa:
                return a
            if a <= len(fa):
                return fa[a - 1]
            raise Panic("unavailable App %d" % a)
        if a <= len(fa):
            return fa[a - 1]
        raise Panic("invalid App reference %d" % a)

    def finish(status, ret=None, err=""):
        st = dict(ctx.app_global)
        for k, v2 in ctx.app_local.items():
            st[("L",) + k] = v2
        for k, v2 in ctx.boxes.items():
            st[("B", k)] = v2
        return Result(status, ret, err, list(ctx.logs), list(ctx.inner), st, list(scratch), steps, list(ctx.trace), san,
                      uninit, calls, list(stack), maxdepth)

    def touch_low(n):
        if callstack:
            f = callstack[-1]
            if n < f.low:
                f.low = n

    asm = assemble_errors(prog)
    if asm:
        return finish("fail", None, "assemble: " + asm[0])
    try:
        while True:
            if pc >= len(ins):
                if len(stack) != 1:
                    raise Panic("stack len is %d instead of 1 at end" % len(stack))
                r = stack[0]
                if not isinstance(r, int):
                    raise Panic("stack finished with bytes not int")
                return finish("approve" if r != 0 else "reject", r)
            steps += 1
            if steps > max_steps:
                raise Timeout()
            I = ins[pc]
            op, a = I.op, I.args
            nextpc = pc + 1
            was_from_callsub = from_callsub
            from_callsub = False
            if sanitize:
                base = callstack[-1].height if callstack else 0
                rel = len(stack) - base
                h = heights.get(pc)
                if h is None:
                    heights[pc] = rel
                elif h != rel:
                    report("height", "pc=%d line=%d op=%s rel height %d vs earlier %d" % (pc, I.line, op, rel, h))
            # ---------------- constants
            if op == "int" or op == "pushint":
                push(parse_int(a[0]))
            elif op == "byte" or op == "pushbytes":
                b, _ = parse_bytes_args(a)
                push(b)
            elif op == "load":
                i = int(a[0])
                if not written[i]:
                    uninit.append((pc, i))
                push(scratch[i])
            elif op == "store":
                i = int(a[0])
                scratch[i] = pop()
                written[i] = True
            elif op in BIN:
                y = pop(); x = pop()
                push(BIN[op](x, y))
            elif op in UN:
                push(UN[op](pop()))
            elif op == "addr":
                push(decode_address(a[0]))
            elif op == "method":
                push(method_selector(a[0]))
            elif op == "intcblock":
                intc = [parse_int(x) for x in a]
            elif op == "bytecblock":
                bytec = []
                rest = list(a)
                while rest:
                    b, n = parse_bytes_args(rest)
                    bytec.append(b)
                    rest = rest[n:]
            elif op == "intc":
                push(intc[int(a[0])])
            elif op.startswith("intc_"):
                push(intc[int(op[5:])])
            elif op == "bytec":
                push(bytec[int(a[0])])
            elif op.startswith("bytec_"):
                push(bytec[int(op[6:])])
            # ---------------- arithmetic
            elif op == "mulw":
                y = pop(); x = pop(); h2, l = P.mulw(x, y); push(h2); push(l)
            elif op == "addw":
                y = pop(); x = pop(); h2, l = P.addw(x, y); push(h2); push(l)
            elif op == "expw":
                y = pop(); x = pop(); h2, l = P.expw(x, y); push(h2); push(l)
            elif op == "divmodw":
                d = pop(); c = pop(); b = pop(); a0 = pop()
                for r in P.divmodw(a0, b, c, d):
                    push(r)
            elif op == "divw":
                c = pop(); b = pop(); a0 = pop(); push(P.divw(a0, b, c))
            elif op == "substring":
                push(P.substring(pop(), int(a[0]), int(a[1])))
            elif op == "substring3":
                e = pop(); s = pop(); b = pop(); push(P.substring(b, s, e))
            elif op == "extract":
                push(P.extract_imm(pop(), int(a[0]), int(a[1])))
            elif op == "extract3":
                l = pop(); s = pop(); b = pop(); push(P.extract3(b, s, l))
            elif op in ("extract_uint16", "extract_uint32", "extract_uint64"):
                s = pop(); b = pop(); push(P.extract_uint(b, s, int(op[12:]) // 8))
            elif op == "setbit":
                c = pop(); b = pop(); t = pop(); push(P.setbit(t, b, c))
            elif op == "setbyte":
                c = pop(); b = pop(); t = pop(); push(P.setbyte(t, b, c))
            elif op == "select":
                c = pop(); b = pop(); t = pop(); push(P.select(t, b, c))
            elif op == "replace2":
                b = pop(); t = pop(); push(P.replace(t, int(a[0]), b))
            elif op == "replace3":
                b = pop(); s = pop(); t = pop(); push(P.replace(t, s, b))
            # ---------------- stack
            elif op == "pop":
                pop()
            elif op == "popn":
                for _ in range(int(a[0])):
                    pop()
            elif op == "dup":
                x = pop(); push(x); push(x)
            elif op == "dupn":
                x = pop(); push(x)
                for _ in range(int(a[0])):
                    push(x)
            elif op == "dup2":
                y = pop(); x = pop(); push(x); push(y); push(x); push(y)
            elif op == "swap":
                y = pop(); x = pop(); push(y); push(x)
            elif op == "dig":
                n = int(a[0])
                if n >= len(stack):
                    raise Panic("dig %d with stack size = %d" % (n, len(stack)))
                touch_low(len(stack) - 1 - n)
                push(stack[-1 - n])
            elif op == "bury":
                n = int(a[0])
                if n == 0:
                    raise Panic("bury 0 always fails")
                if n >= len(stack):
                    raise Panic("bury outside stack")
                touch_low(len(stack) - 1 - n)
                x = stack[-1]
                stack[-1 - n] = x
                stack.pop()
            elif op == "cover":
                n = int(a[0])
                if n >= len(stack):
                    raise Panic("cover %d with stack size = %d" % (n, len(stack)))
                touch_low(len(stack) - 1 - n)
                x = stack.pop(); stack.insert(len(stack) - n, x)
            elif op == "uncover":
                n = int(a[0])
                if n >= len(stack):
                    raise Panic("uncover %d with stack size = %d" % (n, len(stack)))
                touch_low(len(stack) - 1 - n)
                x = stack.pop(len(stack) - 1 - n); stack.append(x)
            # ---------------- scratch (dynamic)
            elif op == "loads":
                i = popi()
                if i >= 256:
                    raise Panic("invalid Scratch index")
                if not written[i]:
                    uninit.append((pc, i))
                push(scratch[i])
            elif op == "stores":
                x = pop(); i = popi()
                if i >= 256:
                    raise Panic("invalid Scratch index")
                scratch[i] = x
                written[i] = True
            # ---------------- flow
            elif op == "b":
                nextpc = target(a[0])
            elif op == "bz":
                if popi() == 0:
                    nextpc = target(a[0])
            elif op == "bnz":
                if popi() != 0:
                    nextpc = target(a[0])
            elif op == "assert":
                if popi() == 0:
                    raise Panic("assert failed pc=%d line=%d" % (pc, I.line))
            elif op == "err":
                raise Panic("err opcode executed")
            elif op == "return":
                r = popi()
                return finish("approve" if r != 0 else "reject", r)
            elif op == "callsub":
                callstack.append(Frame(pc + 1, len(stack), a[0], low=len(stack), snap=tuple(stack) if sanitize else ()))
                if len(callstack) > maxdepth:
                    maxdepth = len(callstack)
                if trace_calls:
                    ctx.trace.append(("call", a[0], tuple(stack)))
                nextpc = target(a[0])
                from_callsub = True
            elif op == "proto":
                if not was_from_callsub:
                    raise Panic("proto was executed without a callsub")
                na, nr = int(a[0]), int(a[1])
                if na > len(stack):
                    raise Panic("callsub to proto that requires %d args with stack height %d" % (na, len(stack)))
                f = callstack[-1]
                f.clear, f.args, f.returns = True, na, nr
            elif op == "retsub":
                if not callstack:
                    raise Panic("retsub with empty callstack")
                f = callstack.pop()
                if f.clear:
                    expect = f.height + f.returns
                    if len(stack) < expect:
                        raise Panic("retsub executed with %d return values on stack, proto declared %d"
                                    % (len(stack) - f.height, f.returns))
                    argstart = f.height - f.args
                    if f.low < argstart and sanitize:
                        report("boundary", "routine %s touched caller stack below its %d args (low=%d, argstart=%d)"
                               % (f.label, f.args, f.low, argstart))
                    rets = stack[f.height:expect]
                    del stack[argstart:]
                    stack.extend(rets)
                    consumed, produced = f.args, f.returns
                    lowmark = min(f.low, argstart)
                else:
                    lowmark = f.low
                    consumed = f.height - lowmark
                    produced = len(stack) - lowmark
                if sanitize:
                    for k in range(min(lowmark, len(f.snap), len(stack))):
                        if stack[k] is not f.snap[k] and stack[k] != f.snap[k]:
                            report("boundary", "caller stack cell %d changed across call to %s" % (k, f.label))
                            break
                    if routine_info is not None:
                        info = routine_info(f.label)
                        # judged on the net effect and on not reaching below the arguments: a routine may legitimately leave an
                        # argument cell in place as its result (the slot optimiser turns 'store a; load a; retsub' into 'retsub')
                        if info is not None and (produced - consumed != info[1] - info[0] or consumed > info[0]):
                            report("boundary", "routine %s consumed %d / produced %d, declared %s"
                                   % (f.label, consumed, produced, tuple(info)))
                calls.append((f.label, consumed, produced))
                # the caller's own low-water mark must include what the callee consumed
                touch_low(lowmark)
                if trace_calls:
                    ctx.trace.append(("ret", f.label, tuple(stack), len(callstack)))
                nextpc = f.retpc
            elif op == "frame_dig":
                if not callstack or not callstack[-1].clear:
                    raise Panic("frame_dig without proto")
                idx = callstack[-1].height + int(a[0])
                if idx >= len(stack) or idx < 0:
                    raise Panic("frame_dig outside stack")
                if int(a[0]) < -callstack[-1].args:
                    raise Panic("frame_dig below the arguments of the frame")
                push(stack[idx])
            elif op == "frame_bury":
                if not callstack or not callstack[-1].clear:
                    raise Panic("frame_bury without proto")
                last = len(stack) - 1
                idx = callstack[-1].height + int(a[0])
                if idx < 0 or idx >= last:
                    raise Panic("frame_bury outside stack")
                if int(a[0]) < -callstack[-1].args:
                    raise Panic("frame_bury below the arguments of the frame")
                stack[idx] = stack[last]
                pop()
            # ---------------- txn / global
            elif op == "txn":
                push(txn_field(ctx, txn, a[0]))
            elif op == "txna":
                push(txn_field(ctx, txn, a[0], int(a[1])))
            elif op == "txnas":
                push(txn_field(ctx, txn, a[0], popi()))
            elif op == "gtxn":
                push(gtxn(ctx, int(a[0]), a[1]))
            elif op == "gtxna":
                push(gtxn(ctx, int(a[0]), a[1], int(a[2])))
            elif op == "gtxnas":
                push(gtxn(ctx, int(a[0]), a[1], popi()))
            elif op == "gtxns":
                push(gtxn(ctx, popi(), a[0]))
            elif op == "gtxnsa":
                push(gtxn(ctx, popi(), a[0], int(a[1])))
            elif op == "gtxnsas":
                i = popi(); t = popi(); push(gtxn(ctx, t, a[0], i))
            elif op == "global":
                push(global_field(ctx, a[0]))
            elif op == "arg" or op.startswith("arg_"):
                i = int(a[0]) if op == "arg" else int(op[4:])
                if i >= len(ctx.args):
                    raise Panic("cannot load arg[%d]" % i)
                push(ctx.args[i])
            elif op == "args":
                i = popi()
                if i >= len(ctx.args):
                    raise Panic("cannot load arg[%d]" % i)
                push(ctx.args[i])
            elif op == "gload":
                t, i = int(a[0]), int(a[1])
                if t >= ctx.gi:
                    raise Panic("gload from self or later txn")
                push(ctx.gscratch.get(t, [0] * 256)[i])
            elif op == "gloads":
                t = popi(); i = int(a[0])
                if t >= ctx.gi:
                    raise Panic("gload from self or later txn")
                push(ctx.gscratch.get(t, [0] * 256)[i])
            elif op == "gloadss":
                i = popi(); t = popi()
                if t >= ctx.gi or i >= 256:
                    raise Panic("gloadss out of range")
                push(ctx.gscratch.get(t, [0] * 256)[i])
            elif op == "gaid":
                t = int(a[0])
                if t >= ctx.gi:
                    raise Panic("gaid from self or later txn")
                push(ctx.gaids.get(t, 0))
            elif op == "gaids":
                t = popi()
                if t >= ctx.gi:
                    raise Panic("gaid from self or later txn")
                push(ctx.gaids.get(t, 0))
            # ---------------- state
            elif op == "app_global_get":
                k = popb(); push(ctx.app_global.get(k, 0))
            elif op == "app_global_put":
                val = pop(); k = popb(); ctx.app_global[k] = val; ctx.trace.append(("gput", k, val))
            elif op == "app_global_del":
                k = popb(); ctx.app_global.pop(k, None); ctx.trace.append(("gdel", k))
            elif op == "app_global_get_ex":
                k = popb(); app = popi()
                if k in ctx.app_global and resolve_app(app) == ctx.app_id:
                    push(ctx.app_global[k]); push(1)
                else:
                    push(0); push(0)
            elif op == "app_local_get":
                k = popb(); acct = resolve_acct(pop()); push(ctx.app_local.get((acct, k), 0))
            elif op == "app_local_put":
                val = pop(); k = popb(); acct = resolve_acct(pop()); ctx.app_local[(acct, k)] = val
                ctx.trace.append(("lput", acct, k, val))
            elif op == "app_local_del":
                k = popb(); acct = resolve_acct(pop()); ctx.app_local.pop((acct, k), None)
                ctx.trace.append(("ldel", acct, k))
            elif op == "app_local_get_ex":
                k = popb(); app = popi(); acct = resolve_acct(pop())
                if (acct, k) in ctx.app_local and resolve_app(app) == ctx.app_id:
                    push(ctx.app_local[(acct, k)]); push(1)
                else:
                    push(0); push(0)
            elif op == "app_opted_in":
                app = popi(); acct = resolve_acct(pop()); push(int(acct in ctx.opted_in))
            elif op == "balance":
                acct = resolve_acct(pop()); push(ctx.balances.get(acct, 0))
            elif op == "min_balance":
                acct = resolve_acct(pop()); push(100000)
            elif op == "asset_holding_get":
                asset = popi(); acct = resolve_acct(pop())
                hd = ctx.holdings.get((acct, asset))
                if hd is None:
                    push(0); push(0)
                else:
                    push(hd.get(a[0], 0)); push(1)
            elif op == "asset_params_get":
                asset = popi(); pr = ctx.assets.get(asset)
                if pr is None:
                    push(0); push(0)
                else:
                    push(pr.get(a[0], 0)); push(1)
            elif op == "app_params_get":
                app = popi(); pr = ctx.apps.get(app)
                if pr is None:
                    push(0); push(0)
                else:
                    push(pr.get(a[0], 0)); push(1)
            elif op == "acct_params_get":
                acct = resolve_acct(pop()); pr = ctx.accts.get(acct)
                if pr is None:
                    push(0); push(0)
                else:
                    push(pr.get(a[0], 0)); push(1)
            elif op == "log":
                b = popb()
                if len(ctx.logs) >= 32:
                    raise Panic("too many log calls")
                ctx.logs.append(b); ctx.trace.append(("log", b))
            # ---------------- boxes
            elif op == "box_create":
                n = popi(); k = popb()
                if k in ctx.boxes:
                    if len(ctx.boxes[k]) != n:
                        raise Panic("box size mismatch")
                    push(0)
                else:
                    ctx.boxes[k] = bytes(n); ctx.trace.append(("box_create", k, n)); push(1)
            elif op == "box_extract":
                l = popi(); s = popi(); k = popb()
                if k not in ctx.boxes:
                    raise Panic("no such box")
                push(P.extract3(ctx.boxes[k], s, l))
            elif op == "box_replace":
                b = popb(); s = popi(); k = popb()
                if k not in ctx.boxes:
                    raise Panic("no such box")
                ctx.boxes[k] = P.replace(ctx.boxes[k], s, b); ctx.trace.append(("box_replace", k, s, b))
            elif op == "box_del":
                k = popb(); push(int(k in ctx.boxes)); ctx.boxes.pop(k, None); ctx.trace.append(("box_del", k))
            elif op == "box_len":
                k = popb()
                if k in ctx.boxes:
                    push(len(ctx.boxes[k])); push(1)
                else:
                    push(0); push(0)
            elif op == "box_get":
                k = popb()
                if k in ctx.boxes:
                    push(ctx.boxes[k]); push(1)
                else:
                    push(b""); push(0)
            elif op == "box_put":
                b = popb(); k = popb()
                if k in ctx.boxes and len(ctx.boxes[k]) != len(b):
                    raise Panic("box_put wrong size")
                ctx.boxes[k] = b; ctx.trace.append(("box_put", k, b))
            # ---------------- inner txns
            elif op == "itxn_begin":
                if itxn_cur is not None:
                    raise Panic("itxn_begin without itxn_submit")
                itxn_cur = [{}]
            elif op == "itxn_next":
                if itxn_cur is None:
                    raise Panic("itxn_next without itxn_begin")
                itxn_cur.append({})
            elif op == "itxn_field":
                if itxn_cur is None:
                    raise Panic("itxn_field without itxn_begin")
                val = pop()
                f = a[0]
                if f in ARRAY_FIELDS:
                    lst = itxn_cur[-1].setdefault(f, [])
                    lim = {"ApplicationArgs": 16, "Accounts": 4, "Assets": 8, "Applications": 8}.get(f, 99)
                    if len(lst) >= lim:
                        raise Panic("too many %s" % f)
                    lst.append(val)
                else:
                    itxn_cur[-1][f] = val
            elif op == "itxn_submit":
                if itxn_cur is None:
                    raise Panic("itxn_submit without itxn_begin")
                ctx.inner.append(itxn_cur); ctx.trace.append(("itxn", repr(itxn_cur)))
                last_inner = itxn_cur
                itxn_cur = None
            elif op in ("itxn", "itxna", "itxnas", "gitxn", "gitxna", "gitxnas"):
                if last_inner is None:
                    raise Panic("no inner transaction available")
                if op == "itxn":
                    push(txn_field(ctx, last_inner[-1], a[0]))
                elif op == "itxna":
                    push(txn_field(ctx, last_inner[-1], a[0], int(a[1])))
                elif op == "itxnas":
                    push(txn_field(ctx, last_inner[-1], a[0], popi()))
                else:
                    t = int(a[0])
                    if t >= len(last_inner):
                        raise Panic("gitxn out of range")
                    if op == "gitxn":
                        push(txn_field(ctx, last_inner[t], a[1]))
                    elif op == "gitxna":
                        push(txn_field(ctx, last_inner[t], a[1], int(a[2])))
                    else:
                        push(txn_field(ctx, last_inner[t], a[1], popi()))
            elif op in UNSUPPORTED_OPS:
                raise Unsupported(op)
            else:
                raise Unsupported("unknown op %s (line %d)" % (op, I.line))
            pc = nextpc
    except Panic as e:
        return finish("fail", None, str(e))
    except (IndexError, ValueError) as e:
        return finish("fail", None, "interp: %r" % e)


def run_text(teal, ctx=None, **kw):
    return run(parse_any(teal), ctx or Ctx(), **kw)
