"""Worker entry point: python -m vlib.worker <check id> <shard.json> <out.json>"""
import importlib
import json
import sys
import threading
import traceback


def main():
    check_id, inp, outp = sys.argv[1:4]
    with open(inp) as f:
        shard = json.load(f)
    mod = importlib.import_module("vlib.checks." + check_id.lower())
    box = {}

    def go():
        try:
            box["res"] = mod.run_shard(shard)
        except BaseException:
            box["err"] = traceback.format_exc()

    if getattr(mod, "DEFAULT_RECURSION", False):
        go()
    else:
        sys.setrecursionlimit(getattr(mod, "RECURSION_LIMIT", 200000))
        threading.stack_size(512 * 1024 * 1024)
        th = threading.Thread(target=go)
        th.start()
        th.join()
    if "err" in box:
        sys.stderr.write(box["err"])
        sys.exit(3)
    with open(outp, "w") as f:
        json.dump(box["res"], f)


if __name__ == "__main__":
    main()
