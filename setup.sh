#!/bin/bash
# Offline setup: nothing to build or install (pure Python against /venv); run the calibration gates.
cd "$(dirname "$0")"
export PYTHONPATH="$PWD" PYTHONDONTWRITEBYTECODE=1
mkdir -p evidence/replay
exec /venv/bin/python -m vlib.calibrate
